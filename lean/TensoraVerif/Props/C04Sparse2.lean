import TensoraVerif.Lemmas.AsmCmp2SpmulAsmKernel
import TensoraVerif.Lemmas.AsmCmp2SpmulCmpKernel
import TensoraVerif.Lemmas.AsmCmp2SpmulCompose
import TensoraVerif.Props.C01Spmul
import TensoraVerif.Lemmas.AsmCmp2SpaddAsmKernel
import TensoraVerif.Lemmas.AsmCmp2SpaddCmpKernel
import TensoraVerif.Lemmas.AsmCmp2SpaddCompose
import TensoraVerif.Props.C01Spadd
import TensoraVerif.Lemmas.AsmCmp2CsrAsmKernel
import TensoraVerif.Lemmas.AsmCmp2CsrCmpKernel
import TensoraVerif.Lemmas.AsmCmp2CsrCompose
import TensoraVerif.Props.C01Csr
import TensoraVerif.Lemmas.AsmCmp2Sparse2Compose
import TensoraVerif.Lemmas.AsmCmp2Sparse2AsmKernel
import TensoraVerif.Lemmas.AsmCmp2Sparse2CmpTop
import TensoraVerif.Props.C01Sparse2

/-!
# C04 ("assemble; compute ≡ evaluate") end to end for four more SPARSE classes

One section (namespace) per class, each with the theorems `<class>_generateIr_assemble_eq`, `_compute_eq`,
`<class>_assemble_correct`, `<class>_compute_correct`, `<class>_assemble_compute_eq_evaluate`,
`<class>_compute_rerun` and non-vacuity examples on the class's closed instance:
1. `TV.Spmul`  — `a(i) = b(i) * c(i)`, compressed vectors (intersection);
2. `TV.Spadd`  — `a(i) = b(i) + c(i)`, compressed vectors (union);
3. `TV.Csr`    — `ds → ds` copy / scale;
4. `TV.Sparse2` — `ss → ss` copy / scale.
Lemmas: `Lemmas/AsmCmp2<Class>*.lean`. Template: `Props/C04Sparse1.lean`.
-/

/-!
# C04, end to end, for more sparse classes — element-wise product of two sparse vectors (class `Spmul`)

"Running the assemble kernel and then the compute kernel on the same output yields exactly the structure and
values that the evaluate kernel yields; the compute kernel never changes or reallocates the structure it is
given, writes only inside the value array assemble sized, and can be re-run with inputs of identical structure
but different values" — proved ON THE MACHINE (`IR.exec`) for every kernel of the class of
`Props/C01Spmul.lean`: `a(i) = b(i) * c(i)`, three compressed vectors (`Spmul.isClass`, graph
`Spmul.graph i outT bT cT`). Same scheme as `Props/C04Sparse1.lean`. Throughout,
`H := intersect (assoc mb crdB cellsB) (assoc mc crdC cellsC)` is the reference result of `C01Spmul.lean` (the
two-finger intersection, values `b * c`), `r := |H|`.

* **A1** `spmul_generateIr_assemble_eq`, `spmul_generateIr_compute_eq` — what `generateIr` emits for the kinds
  `.assemble` / `.compute`, written out (`Spmul.kernelA`, `Spmul.kernelC`).
* **A2** `spmul_assemble_correct` — the assembling kernel from a kernel-call state (`Spmul.Init`), any initial
  capacity `≥ 1`: returns `0`, `pos = [0, r]`, `crd` = the coordinates of `H` (exact sizes), a `vals` block of
  exactly `r + 1` cells (the size `evaluate` leaves; contents unspecified), inputs untouched. No finiteness
  hypothesis.
* **A3** `spmul_compute_correct` — the computing kernel from ANY kernel-call state whose output record owns a
  live `vals` block of at least `r` cells (`Spmul.InitC`): returns `0`, NO allocation, ALL tensor records
  unchanged, every block other than `vals` unchanged, `vals[j] = H[j].2` for `j < r`, cells `≥ r` unchanged.
  `spmul_compute_preserves_structure`: a structure `pos`/`crd` given to it is still there, in the same blocks.
* **A4** `spmul_assemble_compute_eq_evaluate` — assemble, then compute in the next call (`AsmCmp.nextCall`),
  gives the same `pos` block, the same `crd` block and a `vals` block of the same shape with the same first `r`
  cells as `evaluate` (`spmul_kernel_correct`) from the same initial state; `spmul_compute_rerun` — after
  changing the input VALUES of both operands (same coordinates) a second compute call yields the new values in
  the same blocks, without allocation.
* non-vacuity: the closed instance of `C01Spmul.lean` (`b = {0:1, 2:2, 5:3}`, `c = {2:10, 3:20, 5:30}`,
  capacity 1).

Vocabulary: `Lemmas/AsmCmp2SpmulModel.lean` (emitted kernels), `AsmCmp2SpmulPost.lean` (`KernelPostA`, `InitC`,
`KernelPostC`), `AsmCmp2SpmulAsm*.lean`, `AsmCmp2SpmulCmp*.lean` (the runs), `AsmCmp2SpmulCompose.lean`.
-/
namespace TV.Spmul
open TV.IR TV.Gen TV.Graph TV.Growth TV.Merge
open TV.Sparse1 (isSp inLeaf outLeaf sparseFormats capVal)
open TV.AsmCmp (nextCall)

variable {F : Type} [FloatOps F]

/-! ### A1: what the pass emits -/

/-- **The generated `assemble` kernel.** Under the hypotheses of `spmul_generateIr_eq`, `generateIr … .assemble`
succeeds and returns exactly `Spmul.kernelA`: the `evaluate` kernel in which the terminal block is only
`written = true;` (no store into `vals`; the product `b * c` does not occur in the kernel at all). -/
theorem spmul_generateIr_assemble_eq (ofRat : Rat → F) (cap : Option Int) (a : Alg.DAssign)
    (formats : Formats) (i : String) (outT bT cT : TensorId)
    (hout : tensorId 0 a.tname formats a.tidx = some outT)
    (hcl : isClass i outT bT cT = true) (hf : sparseFormats formats = true)
    (hidx : a.tidx = [i]) (hrhs : Dense1.rhsIdx i a.rhs = true) :
    generateIr ofRat cap a formats (graph i outT bT cT) .assemble =
      .ok (kernelA cap formats i outT bT cT) :=
  generateIr_eqA ofRat cap a formats i outT bT cT hout (Dense1.tensorId_name hout) hcl hf
    (Dense1.indexDimensions_eq a i hidx hrhs)

/-- **The generated `compute` kernel.** Under the same hypotheses `generateIr … .compute` succeeds and returns
exactly `Spmul.kernelC`: extract `i_dim`, unpack `pos`/`crd`/`vals` of every tensor, `int p_a = 0;`, the cursors
of `b` and `c`, ONE merge loop whose only branch is `if ((true && i_b == i) && i_c == i) { bool written = false;
{ written = true; a_vals[p_a] = b_vals[p_b] * c_vals[p_c]; } if (written) { p_a = p_a + 1; } }`, an EMPTY
"Assembling output tensor" block, `return 0` — no `malloc`/`realloc`, no store into `pos`, `crd` or the record;
the initial capacity `cap` does not occur. -/
theorem spmul_generateIr_compute_eq (ofRat : Rat → F) (cap : Option Int) (a : Alg.DAssign)
    (formats : Formats) (i : String) (outT bT cT : TensorId)
    (hout : tensorId 0 a.tname formats a.tidx = some outT)
    (hcl : isClass i outT bT cT = true) (hf : sparseFormats formats = true)
    (hidx : a.tidx = [i]) (hrhs : Dense1.rhsIdx i a.rhs = true) :
    generateIr ofRat cap a formats (graph i outT bT cT) .compute =
      .ok (kernelC ofRat formats i outT bT cT) :=
  generateIr_eqC ofRat cap a formats i outT bT cT hout (Dense1.tensorId_name hout) hcl hf
    (Dense1.indexDimensions_eq a i hidx hrhs)

/-! ### A2: the assembling kernel -/

/-- **A2 (the generated `assemble` kernel is correct).** Under the static hypotheses of
`spmul_kernel_correct`, for ANY initial capacity `1 ≤ capVal cap < 2^31` and any kernel-call state `σ`
(`Init`) whose inputs have `mb, mc ≤ 2^30` stored int32 coordinates (sortedness is NOT needed, nor any
hypothesis on the values): the function `generateIr … .assemble` produces runs with any fuel `≥ mb + mc + 1`
WITHOUT ERROR, **returns `0`** after at most `mb + mc` loop iterations, and in the final state, with `H` the
reference intersection,
* the output record (still output-owned, same order and dimensions block) has slot 0 = (`pos`, `crd`) and
  `vals` = the base addresses of three different FRESH blocks, live and output-owned;
* the `pos` block is exactly `[0, |H|]`; the `crd` block is exactly the coordinates of `H`;
* the `vals` block is a `float` block of exactly `|H| + 1` cells — the size the `evaluate` kernel leaves
  (`spmul_kernel_correct`); its CONTENTS ARE UNSPECIFIED (the kernel never stores into it);
* every other tensor record and EVERY block of the initial heap (all inputs) is unchanged. -/
theorem spmul_assemble_correct (ofRat : Rat → F) (cap : Option Int) (a : Alg.DAssign) (formats : Formats)
    (i : String) (outT bT cT : TensorId)
    (hout : tensorId 0 a.tname formats a.tidx = some outT)
    (hcl : isClass i outT bT cT = true) (hf : sparseFormats formats = true)
    (hidx : a.tidx = [i]) (hrhs : Dense1.rhsIdx i a.rhs = true) (ok : KernelOK formats i outT bT cT)
    (hk0 : 1 ≤ capVal cap) (hk1 : capVal cap < 2147483648)
    (ta : Nat) (atr : TensorRec F) (n : Int)
    (tb : Nat) (btr : TensorRec F) (mb bpb bcb bvb : Nat) (crdB : Nat → Int) (cellsB : Nat → F)
    (tc : Nat) (ctr : TensorRec F) (mc cpb ccb cvb : Nat) (crdC : Nat → Int) (cellsC : Nat → F)
    (σ : State F)
    (init : Init outT bT cT ta atr n tb btr mb bpb bcb bvb crdB cellsB tc ctr mc cpb ccb cvb crdC cellsC σ)
    (hmb : mb ≤ 1073741824) (hmc : mc ≤ 1073741824)
    (hrngB : ∀ j, j < mb → -2147483648 ≤ crdB j ∧ crdB j < 2147483648)
    (hrngC : ∀ j, j < mc → -2147483648 ≤ crdC j ∧ crdC j < 2147483648)
    (f : Func F) (hgen : generateIr ofRat cap a formats (graph i outT bT cT) .assemble = .ok f)
    (fuel : Nat) (hfuel : mb + mc + 1 ≤ fuel) :
    ∃ o, exec fuel f.body σ = .ok o ∧ o.ret = some (.int 0) ∧ o.iters ≤ mb + mc ∧
      (∃ tr' pF cF vF vblk, o.st.tensors[ta]? = some tr' ∧ tr'.owner = .output ∧ tr'.order = atr.order ∧
        tr'.dimsBlk = atr.dimsBlk ∧ tr'.slots = atr.slots.set 0 (some (.ptr pF 0, .ptr cF 0)) ∧
        tr'.vals = .ptr vF 0 ∧
        σ.heap.length ≤ pF ∧ σ.heap.length ≤ cF ∧ σ.heap.length ≤ vF ∧ pF ≠ cF ∧ pF ≠ vF ∧ cF ≠ vF ∧
        o.st.heap[pF]? = some ⟨.int, [some (.int 0), some (.int
          (intersect (assoc mb crdB cellsB) (assoc mc crdC cellsC)).length)], .output, true⟩ ∧
        o.st.heap[cF]? = some ⟨.int, (intersect (assoc mb crdB cellsB) (assoc mc crdC cellsC)).map
          (fun p => some (.int p.1)), .output, true⟩ ∧
        o.st.heap[vF]? = some vblk ∧ vblk.live = true ∧ vblk.owner = .output ∧ vblk.ty = .float ∧
        vblk.cells.length = (intersect (assoc mb crdB cellsB) (assoc mc crdC cellsC)).length + 1) ∧
      (∀ k, k ≠ ta → o.st.tensors[k]? = σ.tensors[k]?) ∧
      o.st.tensors.length = σ.tensors.length ∧
      (∀ k, k < σ.heap.length → o.st.heap[k]? = σ.heap[k]?) := by
  rw [spmul_generateIr_assemble_eq ofRat cap a formats i outT bT cT hout hcl hf hidx hrhs] at hgen
  cases hgen
  obtain ⟨o, eo, hret, hit, hp⟩ := kernel_runsA cap formats i outT bT cT hcl ok hk0 hk1 init hmb hmc hrngB hrngC
    fuel hfuel
  exact ⟨o, eo, hret, hit, hp.outRec, hp.otherRecs, hp.tlen, hp.heap⟩

/-! ### A3: the computing kernel -/

/-- **A3 (the generated `compute` kernel is correct, from ANY suitable state).** Under the static hypotheses
of `spmul_kernel_correct`, let `σ` be a kernel-call state (`InitC`: the variables are exactly the three tensor
parameters; the output record `ta` = `atr` is output-owned, its slot 0 holds two pointers or `NULL`s — they
are never dereferenced —, and `atr.vals` is the base address of a live, output-owned `float` block `vF` of AT
LEAST `r` cells, different from the six blocks of the inputs), where `r` is at least the number `|H|` of
coordinates stored by both operands; `mb, mc ≤ 2^30`, int32 coordinates, and wherever the two operands store
the same coordinate both values and their product are finite. This covers the state the assembling kernel
leaves (`spmul_assemble_compute_eq_evaluate`). Then the function `generateIr … .compute` produces runs with any
fuel `≥ mb + mc + 1` WITHOUT ERROR, **returns `0`** after at most `mb + mc` loop iterations, and
* **no allocation**: the heap has the same length;
* **the structure is untouched**: ALL tensor records are unchanged (the output record keeps its slots and
  `vals` — same block ids), and every heap block other than `vF` is unchanged (the output's `pos`/`crd`
  blocks, every input, everything else);
* **it writes only inside the value array**: block `vF` keeps type, owner, liveness and LENGTH; its cells
  `j < |H|` hold the values of `H` (the products `b * c` at the common coordinates, in order); its cells
  `j ≥ |H|` are unchanged. -/
theorem spmul_compute_correct (ofRat : Rat → F) (cap : Option Int) (a : Alg.DAssign) (formats : Formats)
    (i : String) (outT bT cT : TensorId)
    (hout : tensorId 0 a.tname formats a.tidx = some outT)
    (hcl : isClass i outT bT cT = true) (hf : sparseFormats formats = true)
    (hidx : a.tidx = [i]) (hrhs : Dense1.rhsIdx i a.rhs = true) (ok : KernelOK formats i outT bT cT)
    (ta : Nat) (atr : TensorRec F) (n : Int)
    (tb : Nat) (btr : TensorRec F) (mb bpb bcb bvb : Nat) (crdB : Nat → Int) (cellsB : Nat → F)
    (tc : Nat) (ctr : TensorRec F) (mc cpb ccb cvb : Nat) (crdC : Nat → Int) (cellsC : Nat → F)
    (r vF : Nat) (σ : State F)
    (init : InitC outT bT cT ta atr n tb btr mb bpb bcb bvb crdB cellsB tc ctr mc cpb ccb cvb crdC cellsC r vF σ)
    (hmb : mb ≤ 1073741824) (hmc : mc ≤ 1073741824)
    (hlen : (intersect (assoc mb crdB cellsB) (assoc mc crdC cellsC)).length ≤ r)
    (hrngB : ∀ j, j < mb → -2147483648 ≤ crdB j ∧ crdB j < 2147483648)
    (hrngC : ∀ j, j < mc → -2147483648 ≤ crdC j ∧ crdC j < 2147483648)
    (hfin : ∀ q r, q < mb → r < mc → crdB q = crdC r →
      ToIr.AllFinite ofRat (env bT (cellsB q) (cellsC r)) (mulE bT cT))
    (f : Func F) (hgen : generateIr ofRat cap a formats (graph i outT bT cT) .compute = .ok f)
    (fuel : Nat) (hfuel : mb + mc + 1 ≤ fuel) :
    ∃ o, exec fuel f.body σ = .ok o ∧ o.ret = some (.int 0) ∧ o.iters ≤ mb + mc ∧
      o.st.tensors = σ.tensors ∧
      o.st.heap.length = σ.heap.length ∧
      (∀ k, k ≠ vF → o.st.heap[k]? = σ.heap[k]?) ∧
      ∃ blk0 blk, σ.heap[vF]? = some blk0 ∧ o.st.heap[vF]? = some blk ∧ blk.ty = blk0.ty ∧
        blk.owner = blk0.owner ∧ blk.live = blk0.live ∧ blk.cells.length = blk0.cells.length ∧
        (∀ j (h : j < (intersect (assoc mb crdB cellsB) (assoc mc crdC cellsC)).length),
          blk.cells[j]? = some (some (.flt (intersect (assoc mb crdB cellsB) (assoc mc crdC cellsC))[j].2))) ∧
        (∀ j, (intersect (assoc mb crdB cellsB) (assoc mc crdC cellsC)).length ≤ j →
          blk.cells[j]? = blk0.cells[j]?) := by
  rw [spmul_generateIr_compute_eq ofRat cap a formats i outT bT cT hout hcl hf hidx hrhs] at hgen
  cases hgen
  obtain ⟨o, eo, hret, hit, hp⟩ := kernel_runsC ofRat formats i outT bT cT hcl ok init hmb hmc hlen hrngB hrngC
    hfin fuel hfuel
  exact ⟨o, eo, hret, hit, hp.tensors, hp.len, hp.other, hp.vals⟩

/-- **A3, in the words of the property: the structure given to `compute` is still there, in the same blocks.**
If moreover the output record's slot 0 is (`pF`, `cF`) with some `pos` block `posBlk` and some `crd` block
`crdBlk` (both different from `vF`), then after the computing kernel the output record is THE SAME record
(`atr`: same slots, same `vals` pointer), blocks `pF` and `cF` are unchanged, the heap has not grown, and block
`vF` has the same length with the values of `H` in its first `|H|` cells. -/
theorem spmul_compute_preserves_structure (ofRat : Rat → F) (cap : Option Int) (a : Alg.DAssign)
    (formats : Formats) (i : String) (outT bT cT : TensorId)
    (hout : tensorId 0 a.tname formats a.tidx = some outT)
    (hcl : isClass i outT bT cT = true) (hf : sparseFormats formats = true)
    (hidx : a.tidx = [i]) (hrhs : Dense1.rhsIdx i a.rhs = true) (ok : KernelOK formats i outT bT cT)
    (ta : Nat) (atr : TensorRec F) (n : Int)
    (tb : Nat) (btr : TensorRec F) (mb bpb bcb bvb : Nat) (crdB : Nat → Int) (cellsB : Nat → F)
    (tc : Nat) (ctr : TensorRec F) (mc cpb ccb cvb : Nat) (crdC : Nat → Int) (cellsC : Nat → F)
    (r pF cF vF : Nat) (posBlk crdBlk : Block F) (σ : State F)
    (init : InitC outT bT cT ta atr n tb btr mb bpb bcb bvb crdB cellsB tc ctr mc cpb ccb cvb crdC cellsC r vF σ)
    (hslot : atr.slots[0]? = some (some (.ptr pF 0, .ptr cF 0)))
    (hpos : σ.heap[pF]? = some posBlk) (hcrd : σ.heap[cF]? = some crdBlk)
    (hpv : pF ≠ vF) (hcv : cF ≠ vF)
    (hmb : mb ≤ 1073741824) (hmc : mc ≤ 1073741824)
    (hlen : (intersect (assoc mb crdB cellsB) (assoc mc crdC cellsC)).length ≤ r)
    (hrngB : ∀ j, j < mb → -2147483648 ≤ crdB j ∧ crdB j < 2147483648)
    (hrngC : ∀ j, j < mc → -2147483648 ≤ crdC j ∧ crdC j < 2147483648)
    (hfin : ∀ q r, q < mb → r < mc → crdB q = crdC r →
      ToIr.AllFinite ofRat (env bT (cellsB q) (cellsC r)) (mulE bT cT))
    (f : Func F) (hgen : generateIr ofRat cap a formats (graph i outT bT cT) .compute = .ok f)
    (fuel : Nat) (hfuel : mb + mc + 1 ≤ fuel) :
    ∃ o, exec fuel f.body σ = .ok o ∧ o.ret = some (.int 0) ∧
      o.st.tensors[ta]? = some atr ∧ atr.slots[0]? = some (some (.ptr pF 0, .ptr cF 0)) ∧
      atr.vals = .ptr vF 0 ∧
      o.st.heap.length = σ.heap.length ∧
      o.st.heap[pF]? = some posBlk ∧ o.st.heap[cF]? = some crdBlk ∧
      ∃ blk0 blk, σ.heap[vF]? = some blk0 ∧ o.st.heap[vF]? = some blk ∧ blk.live = true ∧
        blk.owner = .output ∧ blk.ty = .float ∧ blk.cells.length = blk0.cells.length ∧
        ∀ j (h : j < (intersect (assoc mb crdB cellsB) (assoc mc crdC cellsC)).length),
          blk.cells[j]? = some (some (.flt (intersect (assoc mb crdB cellsB) (assoc mc crdC cellsC))[j].2)) := by
  obtain ⟨o, eo, hret, _, ht, hl, hother, blk0, blk, hb0, hb, h1, h2, h3, h4, h5, _⟩ :=
    spmul_compute_correct ofRat cap a formats i outT bT cT hout hcl hf hidx hrhs ok ta atr n tb btr mb bpb bcb
      bvb crdB cellsB tc ctr mc cpb ccb cvb crdC cellsC r vF σ init hmb hmc hlen hrngB hrngC hfin f hgen fuel
      hfuel
  obtain ⟨ablk, hab, halive, haown, haty, _⟩ := init.vblk
  rw [hab] at hb0; cases hb0
  exact ⟨o, eo, hret, by rw [ht]; exact init.base.arec, hslot, init.avalsPtr, hl,
    by rw [hother pF hpv]; exact hpos, by rw [hother cF hcv]; exact hcrd,
    blk0, blk, hab, hb, by rw [h3]; exact halive, by rw [h2]; exact haown, by rw [h1]; exact haty, h4, h5⟩

/-! ### A4: assemble ∘ compute = evaluate; re-running compute -/

/-- **A4 (assemble, then compute, yields what evaluate yields).** Under the hypotheses of
`spmul_kernel_correct` and with an output record different from both input records (`ta ≠ tb`, `ta ≠ tc`):
from the same kernel-call state `σ`,
* the `assemble` function runs and returns `0` (state `oA.st`);
* the `compute` function, called next on the same memory (`nextCall σ oA.st`: the parameter environment of
  the call, heap and records as `assemble` left them), runs and returns `0` (state `oC.st`) WITHOUT allocating
  (`oC.st.heap.length = oA.st.heap.length`) and WITHOUT touching any tensor record
  (`oC.st.tensors = oA.st.tensors`);
* the `evaluate` function runs from `σ` and returns `0` (state `oE.st`);
and the output record after assemble+compute (slots `pC`, `cC`, `vals` `vC`) and after evaluate (`pE`, `cE`,
`vE`) describe the same tensor: the `pos` blocks are EQUAL (`[0, |H|]`), the `crd` blocks are EQUAL (the
coordinates of `H`), and the `vals` blocks are live output `float` blocks of the same length `|H| + 1` whose
first `|H|` cells are equal, namely the values of `H`. (The last cell is scratch in both; block ids are not
compared.) -/
theorem spmul_assemble_compute_eq_evaluate (ofRat : Rat → F) (cap : Option Int) (a : Alg.DAssign)
    (formats : Formats) (i : String) (outT bT cT : TensorId)
    (hout : tensorId 0 a.tname formats a.tidx = some outT)
    (hcl : isClass i outT bT cT = true) (hf : sparseFormats formats = true)
    (hidx : a.tidx = [i]) (hrhs : Dense1.rhsIdx i a.rhs = true) (ok : KernelOK formats i outT bT cT)
    (hk0 : 1 ≤ capVal cap) (hk1 : capVal cap < 2147483648)
    (ta : Nat) (atr : TensorRec F) (n : Int)
    (tb : Nat) (btr : TensorRec F) (mb bpb bcb bvb : Nat) (crdB : Nat → Int) (cellsB : Nat → F)
    (tc : Nat) (ctr : TensorRec F) (mc cpb ccb cvb : Nat) (crdC : Nat → Int) (cellsC : Nat → F)
    (hab : ta ≠ tb) (hac : ta ≠ tc) (σ : State F)
    (init : Init outT bT cT ta atr n tb btr mb bpb bcb bvb crdB cellsB tc ctr mc cpb ccb cvb crdC cellsC σ)
    (hmb : mb ≤ 1073741824) (hmc : mc ≤ 1073741824)
    (hrngB : ∀ j, j < mb → -2147483648 ≤ crdB j ∧ crdB j < 2147483648)
    (hrngC : ∀ j, j < mc → -2147483648 ≤ crdC j ∧ crdC j < 2147483648)
    (hfin : ∀ q r, q < mb → r < mc → crdB q = crdC r →
      ToIr.AllFinite ofRat (env bT (cellsB q) (cellsC r)) (mulE bT cT))
    (fA fC fE : Func F)
    (hgenA : generateIr ofRat cap a formats (graph i outT bT cT) .assemble = .ok fA)
    (hgenC : generateIr ofRat cap a formats (graph i outT bT cT) .compute = .ok fC)
    (hgenE : generateIr ofRat cap a formats (graph i outT bT cT) .evaluate = .ok fE)
    (fuel : Nat) (hfuel : mb + mc + 1 ≤ fuel) :
    ∃ oA oC oE,
      exec fuel fA.body σ = .ok oA ∧ oA.ret = some (.int 0) ∧
      exec fuel fC.body (nextCall σ oA.st) = .ok oC ∧ oC.ret = some (.int 0) ∧
      oC.st.heap.length = oA.st.heap.length ∧ oC.st.tensors = oA.st.tensors ∧
      exec fuel fE.body σ = .ok oE ∧ oE.ret = some (.int 0) ∧
      ∃ trC trE pC cC vC pE cE vE blkC blkE,
        oC.st.tensors[ta]? = some trC ∧ oE.st.tensors[ta]? = some trE ∧
        trC.slots = atr.slots.set 0 (some (.ptr pC 0, .ptr cC 0)) ∧ trC.vals = .ptr vC 0 ∧
        trE.slots = atr.slots.set 0 (some (.ptr pE 0, .ptr cE 0)) ∧ trE.vals = .ptr vE 0 ∧
        trC.owner = trE.owner ∧ trC.order = trE.order ∧ trC.dimsBlk = trE.dimsBlk ∧
        oC.st.heap[pC]? = some ⟨.int, [some (.int 0), some (.int
          (intersect (assoc mb crdB cellsB) (assoc mc crdC cellsC)).length)], .output, true⟩ ∧
        oC.st.heap[pC]? = oE.st.heap[pE]? ∧
        oC.st.heap[cC]? = some ⟨.int, (intersect (assoc mb crdB cellsB) (assoc mc crdC cellsC)).map
          (fun p => some (.int p.1)), .output, true⟩ ∧
        oC.st.heap[cC]? = oE.st.heap[cE]? ∧
        oC.st.heap[vC]? = some blkC ∧ oE.st.heap[vE]? = some blkE ∧
        blkC.ty = blkE.ty ∧ blkC.owner = blkE.owner ∧ blkC.live = blkE.live ∧
        blkC.cells.length = (intersect (assoc mb crdB cellsB) (assoc mc crdC cellsC)).length + 1 ∧
        blkE.cells.length = (intersect (assoc mb crdB cellsB) (assoc mc crdC cellsC)).length + 1 ∧
        (∀ j, j < (intersect (assoc mb crdB cellsB) (assoc mc crdC cellsC)).length →
          blkC.cells[j]? = blkE.cells[j]?) ∧
        (∀ j (h : j < (intersect (assoc mb crdB cellsB) (assoc mc crdC cellsC)).length),
          blkC.cells[j]? = some (some (.flt (intersect (assoc mb crdB cellsB) (assoc mc crdC cellsC))[j].2))) ∧
        (∀ k, k ≠ ta → oC.st.tensors[k]? = σ.tensors[k]?) ∧
        (∀ k, k < σ.heap.length → oC.st.heap[k]? = σ.heap[k]?) := by
  -- assemble
  obtain ⟨oA, eA, rA, _, hpA⟩ : ∃ o, exec fuel fA.body σ = .ok o ∧ o.ret = some (.int 0) ∧
      o.iters ≤ mb + mc ∧
      KernelPostA ta atr (intersect (assoc mb crdB cellsB) (assoc mc crdC cellsC)) σ o.st := by
    rw [spmul_generateIr_assemble_eq ofRat cap a formats i outT bT cT hout hcl hf hidx hrhs] at hgenA
    cases hgenA
    exact kernel_runsA cap formats i outT bT cT hcl ok hk0 hk1 init hmb hmc hrngB hrngC fuel hfuel
  obtain ⟨trA, pF, cF, vF, vblkA, h1, h2, h3, h4, h5, h6, h7, h8, h9, h10, h11, h12, h13, h14, h15, h16, h17,
    h18, h19, initC⟩ := initC_after_assemble init hab hac hpA
  -- compute
  obtain ⟨oC, eC, rC, _, htC, hlC, hoC, blk0, blkC, hb0, hbC, c1, c2, c3, c4, c5, _⟩ :=
    spmul_compute_correct ofRat cap a formats i outT bT cT hout hcl hf hidx hrhs ok ta trA n tb btr mb bpb bcb
      bvb crdB cellsB tc ctr mc cpb ccb cvb crdC cellsC _ vF (nextCall σ oA.st) initC hmb hmc (Nat.le_refl _)
      hrngB hrngC hfin fC hgenC fuel hfuel
  have hb0' : oA.st.heap[vF]? = some blk0 := hb0
  rw [h15] at hb0'; cases hb0'
  -- evaluate
  obtain ⟨oE, eE, rE, _, _, ⟨trE, pE, cE, vE, vblkE, g1, g2, g3, g4, g5, g6, _, _, _, _, _, _, g13, g14, g15, g16,
    g17, g18, g19, g20⟩, _⟩ :=
    spmul_kernel_correct ofRat cap a formats i outT bT cT hout hcl hf hidx hrhs ok hk0 hk1 ta atr n tb btr mb
      bpb bcb bvb crdB cellsB tc ctr mc cpb ccb cvb crdC cellsC σ init hmb hmc hrngB hrngC hfin fE hgenE fuel
      hfuel
  have hposC : oC.st.heap[pF]? = some ⟨.int, [some (.int 0), some (.int
      (intersect (assoc mb crdB cellsB) (assoc mc crdC cellsC)).length)], .output, true⟩ := by
    rw [hoC pF h11]; exact h13
  have hcrdC : oC.st.heap[cF]? = some ⟨.int, (intersect (assoc mb crdB cellsB) (assoc mc crdC cellsC)).map
      (fun p => some (.int p.1)), .output, true⟩ := by
    rw [hoC cF h12]; exact h14
  refine ⟨oA, oC, oE, eA, rA, eC, rC, hlC, htC, eE, rE, trA, trE, pF, cF, vF, pE, cE, vE, blkC, vblkE,
    by rw [htC]; exact h1, g1, h5, h6, g5, g6, by rw [h2, g2], by rw [h3, g3], by rw [h4, g4],
    hposC, by rw [hposC, g13], hcrdC, by rw [hcrdC, g14], hbC, g15, by rw [c1, h18, g18],
    by rw [c2, h17, g17], by rw [c3, h16, g16], by rw [c4, h19], g19, ?_, c5, ?_, ?_⟩
  · intro j hj
    rw [c5 j hj, g20 j hj]
  · intro k hk
    rw [htC]
    exact hpA.otherRecs k hk
  · intro k hk
    rw [hoC k (by omega)]
    exact hpA.heap k hk

/-- **A4, re-running `compute` with new input values.** Let `σ` be a state from which `compute` may be called
(`InitC`, e.g. the state after `assemble`), with input values `cellsB`, `cellsC`; run `compute` (→ `o1.st`). Let
`σ2` be ANY state in which the next call may start after the caller has overwritten the VALUES of both inputs:
the parameter environment of `σ`, the tensor records of `o1.st`, a heap of the same length that agrees with
`o1.st`'s everywhere except at the inputs' `vals` blocks `bvb`, `cvb`, which are now some live `float` blocks
whose first `mb` / `mc` cells hold `cellsB'` / `cellsC'` (same coordinates; finiteness as before). Then
`compute` runs again from `σ2`, returns `0`, and in its final state `o2.st`
* all tensor records are still those of the FIRST initial state `σ` and the heap still has the length of
  `σ`'s heap: neither call allocated or touched the structure;
* every block other than the output's `vals` block `vF` and the inputs' `vals` blocks is as in `σ` (in
  particular the output's `pos`/`crd` blocks);
* block `vF` — the same block — has its original type, owner, liveness and length and now holds the NEW values
  (those of `H' = intersect (assoc mb crdB cellsB') (assoc mc crdC cellsC')`, which has the coordinates and the
  length of `H`: `intersect_assoc_coords`) in its first `|H|` cells. -/
theorem spmul_compute_rerun (ofRat : Rat → F) (cap : Option Int) (a : Alg.DAssign) (formats : Formats)
    (i : String) (outT bT cT : TensorId)
    (hout : tensorId 0 a.tname formats a.tidx = some outT)
    (hcl : isClass i outT bT cT = true) (hf : sparseFormats formats = true)
    (hidx : a.tidx = [i]) (hrhs : Dense1.rhsIdx i a.rhs = true) (ok : KernelOK formats i outT bT cT)
    (ta : Nat) (atr : TensorRec F) (n : Int)
    (tb : Nat) (btr : TensorRec F) (mb bpb bcb bvb : Nat) (crdB : Nat → Int) (cellsB cellsB' : Nat → F)
    (tc : Nat) (ctr : TensorRec F) (mc cpb ccb cvb : Nat) (crdC : Nat → Int) (cellsC cellsC' : Nat → F)
    (r vF : Nat) (σ : State F)
    (init : InitC outT bT cT ta atr n tb btr mb bpb bcb bvb crdB cellsB tc ctr mc cpb ccb cvb crdC cellsC r vF σ)
    (hmb : mb ≤ 1073741824) (hmc : mc ≤ 1073741824)
    (hlen : (intersect (assoc mb crdB cellsB) (assoc mc crdC cellsC)).length ≤ r)
    (hrngB : ∀ j, j < mb → -2147483648 ≤ crdB j ∧ crdB j < 2147483648)
    (hrngC : ∀ j, j < mc → -2147483648 ≤ crdC j ∧ crdC j < 2147483648)
    (hfin : ∀ q r, q < mb → r < mc → crdB q = crdC r →
      ToIr.AllFinite ofRat (env bT (cellsB q) (cellsC r)) (mulE bT cT))
    (hfin' : ∀ q r, q < mb → r < mc → crdB q = crdC r →
      ToIr.AllFinite ofRat (env bT (cellsB' q) (cellsC' r)) (mulE bT cT))
    (f : Func F) (hgen : generateIr ofRat cap a formats (graph i outT bT cT) .compute = .ok f)
    (fuel : Nat) (hfuel : mb + mc + 1 ≤ fuel) :
    ∃ o1, exec fuel f.body σ = .ok o1 ∧ o1.ret = some (.int 0) ∧
      o1.st.tensors = σ.tensors ∧ o1.st.heap.length = σ.heap.length ∧
      ∀ σ2 : State F, σ2.vars = σ.vars → σ2.tensors = o1.st.tensors →
        σ2.heap.length = o1.st.heap.length → (∀ k, k ≠ bvb → k ≠ cvb → σ2.heap[k]? = o1.st.heap[k]?) →
        (∃ blk, σ2.heap[bvb]? = some blk ∧ blk.live = true ∧ blk.ty = .float ∧
          ∀ j, j < mb → blk.cells[j]? = some (some (.flt (cellsB' j)))) →
        (∃ blk, σ2.heap[cvb]? = some blk ∧ blk.live = true ∧ blk.ty = .float ∧
          ∀ j, j < mc → blk.cells[j]? = some (some (.flt (cellsC' j)))) →
        ∃ o2, exec fuel f.body σ2 = .ok o2 ∧ o2.ret = some (.int 0) ∧
          o2.st.tensors = σ.tensors ∧ o2.st.heap.length = σ.heap.length ∧
          (∀ k, k ≠ vF → k ≠ bvb → k ≠ cvb → o2.st.heap[k]? = σ.heap[k]?) ∧
          ∃ blk0 blk, σ.heap[vF]? = some blk0 ∧ o2.st.heap[vF]? = some blk ∧ blk.ty = blk0.ty ∧
            blk.owner = blk0.owner ∧ blk.live = blk0.live ∧ blk.cells.length = blk0.cells.length ∧
            (intersect (assoc mb crdB cellsB') (assoc mc crdC cellsC')).length =
              (intersect (assoc mb crdB cellsB) (assoc mc crdC cellsC)).length ∧
            (∀ j (h : j < (intersect (assoc mb crdB cellsB') (assoc mc crdC cellsC')).length),
              blk.cells[j]? =
                some (some (.flt (intersect (assoc mb crdB cellsB') (assoc mc crdC cellsC'))[j].2))) ∧
            (∀ j, (intersect (assoc mb crdB cellsB) (assoc mc crdC cellsC)).length ≤ j →
              blk.cells[j]? = blk0.cells[j]?) := by
  obtain ⟨o1, e1, r1, _, ht1, hl1, ho1, blk0, blk1, hb0, hb1, a1, a2, a3, a4, _, a6⟩ :=
    spmul_compute_correct ofRat cap a formats i outT bT cT hout hcl hf hidx hrhs ok ta atr n tb btr mb bpb bcb
      bvb crdB cellsB tc ctr mc cpb ccb cvb crdC cellsC r vF σ init hmb hmc hlen hrngB hrngC hfin f hgen fuel
      hfuel
  refine ⟨o1, e1, r1, ht1, hl1, ?_⟩
  intro σ2 hv ht hl hh hvalB hvalC
  have hLen := intersect_assoc_length mb mc crdB crdC cellsB' cellsC' cellsB cellsC
  obtain ⟨d0, ⟨dB1, dB2, dB3, dB4, dB5⟩, ⟨dC1, dC2, dC3, dC4, dC5⟩⟩ := init.int_blocks_ne
  obtain ⟨v1, v2, v3, v4, v5, v6⟩ := init.vne
  obtain ⟨ablk, hab, halive, haown, haty, halen⟩ := init.vblk
  rw [hab] at hb0; cases hb0
  have hvF2 : σ2.heap[vF]? = some blk1 := by rw [hh vF v3 v6]; exact hb1
  have init2 : InitC outT bT cT ta atr n tb btr mb bpb bcb bvb crdB cellsB' tc ctr mc cpb ccb cvb crdC cellsC'
      r vF σ2 :=
    init.transport hv (by rw [ht, ht1])
      (by rw [hh _ dB1 dC1, ho1 _ d0])
      (by rw [hh _ dB2 dC2, ho1 _ (Ne.symm v1)])
      (by rw [hh _ dB3 dC3, ho1 _ (Ne.symm v2)])
      (by rw [hh _ dB4 dC4, ho1 _ (Ne.symm v4)])
      (by rw [hh _ dB5 dC5, ho1 _ (Ne.symm v5)])
      hvalB hvalC
      ⟨blk1, hvF2, by rw [a3]; exact halive, by rw [a2]; exact haown, by rw [a1]; exact haty,
        by rw [a4]; exact halen⟩
  obtain ⟨o2, e2, r2, _, ht2, hl2, ho2, blk0', blk2, hb0', hb2, b1, b2, b3, b4, b5, b6⟩ :=
    spmul_compute_correct ofRat cap a formats i outT bT cT hout hcl hf hidx hrhs ok ta atr n tb btr mb bpb bcb
      bvb crdB cellsB' tc ctr mc cpb ccb cvb crdC cellsC' r vF σ2 init2 hmb hmc (by rw [hLen]; exact hlen)
      hrngB hrngC hfin' f hgen fuel hfuel
  rw [hvF2] at hb0'; cases hb0'
  refine ⟨o2, e2, r2, by rw [ht2, ht, ht1], by rw [hl2, hl, hl1], ?_, blk0, blk2, hab, hb2,
    by rw [b1, a1], by rw [b2, a2], by rw [b3, a3], by rw [b4, a4], hLen, b5, ?_⟩
  · intro k hk1 hk2 hk3
    rw [ho2 k hk1, hh k hk2 hk3, ho1 k hk1]
  · intro j hj
    rw [b6 j (by rw [hLen]; exact hj), a6 j hj]

/-! ### A5: exact instance -/

/-- **A5 (exact instance of A4).** Over the exact carrier `Rat` (every value finite, literals through `id`) no
finiteness hypothesis is left: both calls return `0`, `compute` allocates nothing and changes no record, and
the output record points to `pos = [0, |H|]`, `crd` = the coordinates of `H` and a `vals` block of `|H| + 1`
cells with `vals[j] = H[j].2`, the exact product `b * c` at the `j`-th common coordinate (for strictly
increasing inputs `H` is the set-theoretic intersection and its dense reading is `Alg.denote` of the source
assignment: `spmul_intersect_spec`, `spmul_denote`). -/
theorem spmul_assemble_compute_exact (cap : Option Int) (a : Alg.DAssign)
    (formats : Formats) (i : String) (outT bT cT : TensorId)
    (hout : tensorId 0 a.tname formats a.tidx = some outT)
    (hcl : isClass i outT bT cT = true) (hf : sparseFormats formats = true)
    (hidx : a.tidx = [i]) (hrhs : Dense1.rhsIdx i a.rhs = true) (ok : KernelOK formats i outT bT cT)
    (hk0 : 1 ≤ capVal cap) (hk1 : capVal cap < 2147483648)
    (ta : Nat) (atr : TensorRec Rat) (n : Int)
    (tb : Nat) (btr : TensorRec Rat) (mb bpb bcb bvb : Nat) (crdB : Nat → Int) (cellsB : Nat → Rat)
    (tc : Nat) (ctr : TensorRec Rat) (mc cpb ccb cvb : Nat) (crdC : Nat → Int) (cellsC : Nat → Rat)
    (hab : ta ≠ tb) (hac : ta ≠ tc) (σ : State Rat)
    (init : Init outT bT cT ta atr n tb btr mb bpb bcb bvb crdB cellsB tc ctr mc cpb ccb cvb crdC cellsC σ)
    (hmb : mb ≤ 1073741824) (hmc : mc ≤ 1073741824)
    (hrngB : ∀ j, j < mb → -2147483648 ≤ crdB j ∧ crdB j < 2147483648)
    (hrngC : ∀ j, j < mc → -2147483648 ≤ crdC j ∧ crdC j < 2147483648)
    (fA fC : Func Rat)
    (hgenA : generateIr id cap a formats (graph i outT bT cT) .assemble = .ok fA)
    (hgenC : generateIr id cap a formats (graph i outT bT cT) .compute = .ok fC)
    (fuel : Nat) (hfuel : mb + mc + 1 ≤ fuel) :
    ∃ oA oC,
      exec fuel fA.body σ = .ok oA ∧ oA.ret = some (.int 0) ∧
      exec fuel fC.body (nextCall σ oA.st) = .ok oC ∧ oC.ret = some (.int 0) ∧
      oC.st.heap.length = oA.st.heap.length ∧ oC.st.tensors = oA.st.tensors ∧
      ∃ tr' pF cF vF vblk, oC.st.tensors[ta]? = some tr' ∧
        tr'.slots = atr.slots.set 0 (some (.ptr pF 0, .ptr cF 0)) ∧ tr'.vals = .ptr vF 0 ∧
        oC.st.heap[pF]? = some ⟨.int, [some (.int 0), some (.int
          (intersect (assoc mb crdB cellsB) (assoc mc crdC cellsC)).length)], .output, true⟩ ∧
        oC.st.heap[cF]? = some ⟨.int, (intersect (assoc mb crdB cellsB) (assoc mc crdC cellsC)).map
          (fun p => some (.int p.1)), .output, true⟩ ∧
        oC.st.heap[vF]? = some vblk ∧
        vblk.cells.length = (intersect (assoc mb crdB cellsB) (assoc mc crdC cellsC)).length + 1 ∧
        ∀ j (h : j < (intersect (assoc mb crdB cellsB) (assoc mc crdC cellsC)).length),
          vblk.cells[j]? = some (some (.flt (intersect (assoc mb crdB cellsB) (assoc mc crdC cellsC))[j].2)) := by
  obtain ⟨fE, hgenE⟩ : ∃ fE, generateIr (F := Rat) id cap a formats (graph i outT bT cT) .evaluate = .ok fE :=
    ⟨_, spmul_generateIr_eq id cap a formats i outT bT cT hout hcl hf hidx hrhs⟩
  obtain ⟨oA, oC, oE, eA, rA, eC, rC, hl, ht, _, _, trC, trE, pC, cC, vC, pE, cE, vE, blkC, blkE, h1, _, h3, h4,
    _, _, _, _, _, h10, _, h12, _, h14, _, _, _, _, h19, _, _, h22, _⟩ :=
    spmul_assemble_compute_eq_evaluate id cap a formats i outT bT cT hout hcl hf hidx hrhs ok hk0 hk1 ta atr n
      tb btr mb bpb bcb bvb crdB cellsB tc ctr mc cpb ccb cvb crdC cellsC hab hac σ init hmb hmc hrngB hrngC
      (fun q r _ _ _ => allFinite_rat _ _ _ _ _) fA fC fE hgenA hgenC hgenE fuel hfuel
  exact ⟨oA, oC, eA, rA, eC, rC, hl, ht, trC, pC, cC, vC, blkC, h1, h3, h4, h10, h12, h14, h19, h22⟩

/-! ### non-vacuity: `a(i) = b(i) * c(i)`, `b = {0:1, 2:2, 5:3}`, `c = {2:10, 3:20, 5:30}`, capacity 1 -/

/-- the output record of the instance is none of the input records -/
theorem exRecsNe : (0 : Nat) ≠ 1 ∧ (0 : Nat) ≠ 2 := by decide

/-- **A1–A4 are not vacuous** (over `Int`, initial capacity 1 — `assemble` reallocates both `crd` and `vals`):
on the closed instance of `C01Spmul.lean` every hypothesis holds, `generateIr` produces the three kernels,
`assemble` returns `0`, `compute` called next returns `0` without allocating, and the output record then
points to `pos = [0, 2]`, `crd = [2, 5]`, `vals = [20, 90, ·]` (3 cells) — what `evaluate` leaves
(`spmul_example`). -/
example : ∃ fA fC oA oC,
    generateIr exOfRat (some 1) exAssign exFormats (graph "i" exOut exB exC) .assemble = .ok fA ∧
    generateIr exOfRat (some 1) exAssign exFormats (graph "i" exOut exB exC) .compute = .ok fC ∧
    exec 7 fA.body (exStateOf (F := Int) id) = .ok oA ∧ oA.ret = some (.int 0) ∧
    exec 7 fC.body (nextCall (exStateOf (F := Int) id) oA.st) = .ok oC ∧ oC.ret = some (.int 0) ∧
    oC.st.heap.length = oA.st.heap.length ∧ oC.st.tensors = oA.st.tensors ∧
    ∃ tr' pF cF vF vblk, oC.st.tensors[0]? = some tr' ∧
      tr'.slots = [some (.ptr pF 0, .ptr cF 0)] ∧ tr'.vals = .ptr vF 0 ∧
      oC.st.heap[pF]? = some ⟨.int, [some (.int 0), some (.int 2)], .output, true⟩ ∧
      oC.st.heap[cF]? = some ⟨.int, [some (.int 2), some (.int 5)], .output, true⟩ ∧
      oC.st.heap[vF]? = some vblk ∧ vblk.cells.length = 3 ∧
      vblk.cells[0]? = some (some (.flt 20)) ∧ vblk.cells[1]? = some (some (.flt 90)) := by
  have hgenA := spmul_generateIr_assemble_eq exOfRat (some 1) exAssign exFormats "i" exOut exB exC
    (by decide) (by decide) (by decide) rfl (by decide)
  have hgenC := spmul_generateIr_compute_eq exOfRat (some 1) exAssign exFormats "i" exOut exB exC
    (by decide) (by decide) (by decide) rfl (by decide)
  have hgenE := spmul_generateIr_eq exOfRat (some 1) exAssign exFormats "i" exOut exB exC (by decide)
    (by decide) (by decide) rfl (by decide)
  obtain ⟨oA, oC, oE, eA, rA, eC, rC, hl, ht, _, _, trC, trE, pC, cC, vC, pE, cE, vE, blkC, blkE, h1, _, h3, h4,
    _, _, _, _, _, h10, _, h12, _, h14, _, _, _, _, h19, _, _, h22, _⟩ :=
    spmul_assemble_compute_eq_evaluate exOfRat (some 1) exAssign exFormats "i" exOut exB exC (by decide)
      (by decide) (by decide) rfl (by decide) exKernelOK (by decide) (by decide) 0 _ 6 1 _ 3 2 3 4 exCrdB
      (exCellsB (F := Int) id) 2 _ 3 6 7 8 exCrdC (exCellsC (F := Int) id) exRecsNe.1 exRecsNe.2 _
      (exInitOf (F := Int) id) (by decide) (by decide) exRangeB exRangeC
      (fun q r _ _ _ => ToIr.Ex.allFinite_int _ _ _) _ _ _ hgenA hgenC hgenE 7 (by decide)
  rw [exIntersect] at h10 h12 h19 h22
  exact ⟨_, _, oA, oC, hgenA, hgenC, eA, rA, eC, rC, hl, ht, trC, pC, cC, vC, blkC, h1, h3, h4, h10, h12, h14,
    h19, h22 0 (by decide), h22 1 (by decide)⟩

/-- **A2 alone on the instance**: after `assemble` (capacity 1) the output record points to `pos = [0, 2]`,
`crd = [2, 5]` and a `vals` block of exactly 3 cells -/
example : ∃ f o, generateIr exOfRat (some 1) exAssign exFormats (graph "i" exOut exB exC) .assemble = .ok f ∧
    exec 7 f.body (exStateOf (F := Int) id) = .ok o ∧ o.ret = some (.int 0) ∧
    ∃ tr' pF cF vF vblk, o.st.tensors[0]? = some tr' ∧
      tr'.slots = [some (.ptr pF 0, .ptr cF 0)] ∧ tr'.vals = .ptr vF 0 ∧
      o.st.heap[pF]? = some ⟨.int, [some (.int 0), some (.int 2)], .output, true⟩ ∧
      o.st.heap[cF]? = some ⟨.int, [some (.int 2), some (.int 5)], .output, true⟩ ∧
      o.st.heap[vF]? = some vblk ∧ vblk.live = true ∧ vblk.ty = .float ∧ vblk.cells.length = 3 := by
  have hgen := spmul_generateIr_assemble_eq exOfRat (some 1) exAssign exFormats "i" exOut exB exC
    (by decide) (by decide) (by decide) rfl (by decide)
  obtain ⟨o, eo, hret, _, ⟨tr', pF, cF, vF, vblk, h1, _, _, _, h5, h6, _, _, _, _, _, _, h13, h14, h15, h16, _,
    h18, h19⟩, _⟩ :=
    spmul_assemble_correct exOfRat (some 1) exAssign exFormats "i" exOut exB exC (by decide) (by decide)
      (by decide) rfl (by decide) exKernelOK (by decide) (by decide) 0 _ 6 1 _ 3 2 3 4 exCrdB
      (exCellsB (F := Int) id) 2 _ 3 6 7 8 exCrdC (exCellsC (F := Int) id) _ (exInitOf (F := Int) id)
      (by decide) (by decide) exRangeB exRangeC _ hgen 7 (by decide)
  rw [exIntersect] at h13 h14 h19
  exact ⟨_, o, hgen, eo, hret, tr', pF, cF, vF, vblk, h1, h5, h6, h13, h14, h15, h16, h18, h19⟩

/-- new values of `b` for the re-run: `b = {0: 7, 2: 8, 5: 9}` -/
def exCellsB' : Nat → Int := fun j => [7, 8, 9].getD j 0
/-- new values of `c` for the re-run: `c = {2: 2, 3: 3, 5: 4}` -/
def exCellsC' : Nat → Int := fun j => [2, 3, 4].getD j 0

/-- the reference on the new values: `{0:7, 2:8, 5:9} ∩ {2:2, 3:3, 5:4} = {2:16, 5:36}` -/
theorem exIntersect' :
    intersect (assoc 3 exCrdB exCellsB') (assoc 3 exCrdC exCellsC') = [(2, 16), (5, 36)] := by decide

/-- **the re-run is not vacuous**: on the instance, after `assemble` and a first `compute` (values `[20, 90]`),
the caller overwrites `b`'s values with `{0:7, 2:8, 5:9}` (block 4) and `c`'s values with `{2:2, 3:3, 5:4}`
(block 8) and calls `compute` again: it returns `0`, records and heap length are still those `assemble` left,
and the SAME `vals` block now holds `[16, 36, ·]`. -/
example : ∃ fA fC oA o1 o2,
    generateIr exOfRat (some 1) exAssign exFormats (graph "i" exOut exB exC) .assemble = .ok fA ∧
    generateIr exOfRat (some 1) exAssign exFormats (graph "i" exOut exB exC) .compute = .ok fC ∧
    exec 7 fA.body (exStateOf (F := Int) id) = .ok oA ∧
    exec 7 fC.body (nextCall (exStateOf (F := Int) id) oA.st) = .ok o1 ∧
    exec 7 fC.body ⟨(exStateOf (F := Int) id).vars,
      (o1.st.heap.set 4 ⟨.float, [some (.flt 7), some (.flt 8), some (.flt 9)], .input, true⟩).set 8
        ⟨.float, [some (.flt 2), some (.flt 3), some (.flt 4)], .input, true⟩, o1.st.tensors⟩ = .ok o2 ∧
    o2.ret = some (.int 0) ∧ o2.st.tensors = oA.st.tensors ∧ o2.st.heap.length = oA.st.heap.length ∧
    ∃ tr' vF vblk, o2.st.tensors[0]? = some tr' ∧ tr'.vals = .ptr vF 0 ∧ o2.st.heap[vF]? = some vblk ∧
      vblk.cells[0]? = some (some (.flt 16)) ∧ vblk.cells[1]? = some (some (.flt 36)) := by
  have hgenA := spmul_generateIr_assemble_eq exOfRat (some 1) exAssign exFormats "i" exOut exB exC
    (by decide) (by decide) (by decide) rfl (by decide)
  have hgenC := spmul_generateIr_compute_eq exOfRat (some 1) exAssign exFormats "i" exOut exB exC
    (by decide) (by decide) (by decide) rfl (by decide)
  obtain ⟨oA, eA, _, _, hrec, hother, htl, hheap⟩ :=
    spmul_assemble_correct exOfRat (some 1) exAssign exFormats "i" exOut exB exC (by decide) (by decide)
      (by decide) rfl (by decide) exKernelOK (by decide) (by decide) 0 _ 6 1 _ 3 2 3 4 exCrdB
      (exCellsB (F := Int) id) 2 _ 3 6 7 8 exCrdC (exCellsC (F := Int) id) _ (exInitOf (F := Int) id)
      (by decide) (by decide) exRangeB exRangeC _ hgenA 7 (by decide)
  obtain ⟨tr', pF, cF, vF, vblk, h1, _, _, _, _, h6, _, _, _, _, _, _, _, _, _, _, _, _, _, initC⟩ :=
    initC_after_assemble
      (hist := intersect (assoc 3 exCrdB (exCellsB (F := Int) id)) (assoc 3 exCrdC (exCellsC (F := Int) id)))
      (exInitOf (F := Int) id) exRecsNe.1 exRecsNe.2 ⟨hrec, hother, htl, hheap⟩
  obtain ⟨o1, e1, _, _, hl1, hre⟩ :=
    spmul_compute_rerun exOfRat (some 1) exAssign exFormats "i" exOut exB exC (by decide) (by decide)
      (by decide) rfl (by decide) exKernelOK 0 tr' 6 1 _ 3 2 3 4 exCrdB (exCellsB (F := Int) id) exCellsB'
      2 _ 3 6 7 8 exCrdC (exCellsC (F := Int) id) exCellsC' _ vF _ initC (by decide) (by decide)
      (Nat.le_refl _) exRangeB exRangeC (fun q r _ _ _ => ToIr.Ex.allFinite_int _ _ _)
      (fun q r _ _ _ => ToIr.Ex.allFinite_int _ _ _) _ hgenC 7 (by decide)
  have h8 : 8 < o1.st.heap.length := by
    rw [hl1]
    show 8 < oA.st.heap.length
    exact lt_length_of_getElem?
      (x := ⟨.float, [some (.flt 10), some (.flt 20), some (.flt 30)], .input, true⟩)
      (by rw [hheap 8 (by decide)]; rfl)
  have h4 : 4 < o1.st.heap.length := by omega
  obtain ⟨o2, e2, r2, ht2, hl2, _, blk0, blk2, _, hb2, _, _, _, _, _, b5, _⟩ :=
    hre ⟨(exStateOf (F := Int) id).vars,
      (o1.st.heap.set 4 ⟨.float, [some (.flt 7), some (.flt 8), some (.flt 9)], .input, true⟩).set 8
        ⟨.float, [some (.flt 2), some (.flt 3), some (.flt 4)], .input, true⟩, o1.st.tensors⟩ rfl rfl
      (by simp)
      (fun k hk1 hk2 => by
        show ((o1.st.heap.set 4 _).set 8 _)[k]? = _
        rw [List.getElem?_set_ne (Ne.symm hk2), List.getElem?_set_ne (Ne.symm hk1)])
      ⟨_, by
        show ((o1.st.heap.set 4 _).set 8 _)[4]? = _
        rw [List.getElem?_set_ne (by decide), List.getElem?_set_self h4], rfl, rfl, by
        intro j hj
        match j, hj with
        | 0, _ => rfl
        | 1, _ => rfl
        | 2, _ => rfl⟩
      ⟨_, by
        show ((o1.st.heap.set 4 _).set 8 _)[8]? = _
        exact List.getElem?_set_self (by simpa using h8), rfl, rfl, by
        intro j hj
        match j, hj with
        | 0, _ => rfl
        | 1, _ => rfl
        | 2, _ => rfl⟩
  rw [exIntersect'] at b5
  exact ⟨_, _, oA, o1, o2, hgenA, hgenC, eA, e1, e2, r2, ht2, hl2, tr', vF, blk2, by rw [ht2]; exact h1, h6, hb2,
    b5 0 (by decide), b5 1 (by decide)⟩

/-- **A5 is not vacuous**: the same instance over `Rat`, default initial capacity; after `assemble` and
`compute` the output's `crd` block is the coordinates of the reference intersection and its `vals` block holds
the exact products -/
example : ∃ (fA fC : Func Rat) (oA oC : Out Rat),
    generateIr (F := Rat) id none exAssign exFormats (graph "i" exOut exB exC) .assemble = .ok fA ∧
    generateIr (F := Rat) id none exAssign exFormats (graph "i" exOut exB exC) .compute = .ok fC ∧
    exec 7 fA.body (exStateOf (fun z => (z : Rat))) = .ok oA ∧ oA.ret = some (.int 0) ∧
    exec 7 fC.body (nextCall (exStateOf (fun z => (z : Rat))) oA.st) = .ok oC ∧ oC.ret = some (.int 0) ∧
    ∃ (cF vF : Nat) (vblk : Block Rat),
      oC.st.heap[cF]? = some ⟨.int, (intersect (assoc 3 exCrdB (exCellsB (fun z => (z : Rat))))
        (assoc 3 exCrdC (exCellsC (fun z => (z : Rat))))).map (fun p => some (.int p.1)), .output, true⟩ ∧
      oC.st.heap[vF]? = some vblk ∧
      ∀ j (h : j < (intersect (assoc 3 exCrdB (exCellsB (fun z => (z : Rat))))
          (assoc 3 exCrdC (exCellsC (fun z => (z : Rat))))).length),
        vblk.cells[j]? = some (some (.flt (intersect (assoc 3 exCrdB (exCellsB (fun z => (z : Rat))))
          (assoc 3 exCrdC (exCellsC (fun z => (z : Rat)))))[j].2)) := by
  have hgenA := spmul_generateIr_assemble_eq (F := Rat) id none exAssign exFormats "i" exOut exB exC
    (by decide) (by decide) (by decide) rfl (by decide)
  have hgenC := spmul_generateIr_compute_eq (F := Rat) id none exAssign exFormats "i" exOut exB exC
    (by decide) (by decide) (by decide) rfl (by decide)
  obtain ⟨oA, oC, eA, rA, eC, rC, _, _, tr', pF, cF, vF, vblk, _, _, _, _, h5, h6, _, h8⟩ :=
    spmul_assemble_compute_exact none exAssign exFormats "i" exOut exB exC (by decide) (by decide)
      (by decide) rfl (by decide) exKernelOK (by decide) (by decide) 0 _ 6 1 _ 3 2 3 4 exCrdB
      (exCellsB (fun z => (z : Rat))) 2 _ 3 6 7 8 exCrdC (exCellsC (fun z => (z : Rat))) exRecsNe.1 exRecsNe.2
      _ (exInitOf (fun z => (z : Rat))) (by decide) (by decide) exRangeB exRangeC _ _ hgenA hgenC 7 (by decide)
  exact ⟨_, _, oA, oC, hgenA, hgenC, eA, rA, eC, rC, cF, vF, vblk, h5, h6, h8⟩

end TV.Spmul

/-!
# C04, end to end, for the sparse vector sum (class `Spadd`, `a(i) = b(i) + c(i)`)

"Running the assemble kernel and then the compute kernel on the same output yields exactly the structure and
values that the evaluate kernel yields; the compute kernel never changes or reallocates the structure it is
given, writes only inside the value array assemble sized, and can be re-run with inputs of identical structure
but different values" — proved ON THE MACHINE (`IR.exec`) for every kernel of the class of
`Props/C01Spadd.lean`: three compressed vectors, `a(i) = b(i) + c(i)` (union merge: three loops — the merge loop
with the three exclusive branches both / only `b` / only `c`, the tail loop of `b`, the tail loop of `c`).
`H := union (assoc mb crdB cellsB) (assoc mc crdC cellsC)` is the reference result (`Lemmas/SpaddPure.lean`).

* **A1** `spadd_generateIr_assemble_eq`, `spadd_generateIr_compute_eq` — what `generateIr` emits for the
  kinds `.assemble` / `.compute`, written out (`Spadd.kernelA`, `Spadd.kernelC`): EVERY terminal of the five
  branches gets the assemble / compute treatment.
* **A2** `spadd_assemble_correct` — the assembling kernel from a kernel-call state (`Spmul.Init`), any initial
  capacity `≥ 1`: returns `0`, `pos = [0, |H|]`, `crd` = the coordinates of `H` (exact sizes), a `vals` block of
  exactly `|H| + 1` cells (the size `evaluate` leaves; contents unspecified), inputs untouched. No hypothesis on
  the values.
* **A3** `spadd_compute_correct` — the computing kernel from ANY kernel-call state whose output record owns a
  live `vals` block of at least `|H|` cells (`InitC`): returns `0`, NO allocation, ALL tensor records unchanged,
  every block other than `vals` unchanged, the first `|H|` cells of `vals` = the values of `H`, the others
  unchanged. `spadd_compute_preserves_structure`: the `pos`/`crd` blocks given are still there.
* **A4** `spadd_assemble_compute_eq_evaluate` — assemble, then compute in the next call (`AsmCmp.nextCall`),
  gives the same `pos` block, the same `crd` block and a `vals` block of the same shape with the same first
  `|H|` cells as `evaluate` (`spadd_kernel_correct`) from the same initial state; `spadd_compute_rerun` — after
  changing the input VALUES (same coordinates) a second compute call yields the new values in the same blocks,
  without allocation.
* non-vacuity: the closed instance of `C01Spadd.lean` (`b = {0:1, 2:2, 5:3}`, `c = {2:10, 3:20}`, capacity 1).

Vocabulary: `Lemmas/AsmCmp2SpaddModel.lean` (emitted kernels), `Lemmas/AsmCmp2SpmulPost.lean` (`KernelPostA`,
`InitC`, `KernelPostC`, shared with the product class), `Lemmas/AsmCmpCompose.lean` (`nextCall`).
-/
namespace TV.Spadd
open TV.IR TV.Gen TV.Graph TV.Growth TV.Merge
open TV.Sparse1 (isSp inLeaf outLeaf sparseFormats capVal)
open TV.Spmul (isClass isClass_iff assoc Init KernelOK KernelPostA InitC KernelPostC initC_after_assemble)
open TV.AsmCmp (nextCall)

section
variable {F : Type} [FloatOps F]

/-! ### A1: what the pass emits -/

/-- **The generated `assemble` kernel.** Under the hypotheses of `spadd_generateIr_eq`, `generateIr … .assemble`
succeeds and returns exactly `Spadd.kernelA`: the `evaluate` kernel (`Spadd.kernel`: same prologue with initial
capacity `cap`, same three loops, same pos assembly and cleanup) in which the terminal block of EACH of the
five branches (both / only `b` / only `c` in the merge loop, the branch of the tail loop of `b`, the branch of
the tail loop of `c`) is only `written = true;` — no store into `vals`; the right-hand sides `b + c`, `b`, `c`
do not occur in the kernel at all. -/
theorem spadd_generateIr_assemble_eq (ofRat : Rat → F) (cap : Option Int) (a : Alg.DAssign)
    (formats : Formats) (i : String) (outT bT cT : TensorId)
    (hout : tensorId 0 a.tname formats a.tidx = some outT)
    (hcl : isClass i outT bT cT = true) (hf : sparseFormats formats = true)
    (hidx : a.tidx = [i]) (hrhs : Dense1.rhsIdx i a.rhs = true) :
    generateIr ofRat cap a formats (graph i outT bT cT) .assemble =
      .ok (kernelA cap formats i outT bT cT) :=
  generateIr_eqA ofRat cap a formats i outT bT cT hout (Dense1.tensorId_name hout) hcl hf
    (Dense1.indexDimensions_eq a i hidx hrhs)

/-- **The generated `compute` kernel.** Under the same hypotheses `generateIr … .compute` succeeds and returns
exactly `Spadd.kernelC`: extract `i_dim`, unpack `pos`/`crd`/`vals` of every tensor, `int p_a = 0;`, the cursors
of `b` and `c`, the merge loop whose three exclusive branches are `bool written = false; { written = true;
a_vals[p_a] = <e>; } if (written) { p_a = p_a + 1; }` with `<e>` = `b + c`, `b`, `c`, the tail loop of `b`, the
tail loop of `c` (same branch body with `<e>` = `b`, resp. `c`), an EMPTY "Assembling output tensor" block,
`return 0` — no `malloc`/`realloc`, no store into `pos`, `crd` or the record, no pos assembly; the initial
capacity `cap` does not occur. -/
theorem spadd_generateIr_compute_eq (ofRat : Rat → F) (cap : Option Int) (a : Alg.DAssign)
    (formats : Formats) (i : String) (outT bT cT : TensorId)
    (hout : tensorId 0 a.tname formats a.tidx = some outT)
    (hcl : isClass i outT bT cT = true) (hf : sparseFormats formats = true)
    (hidx : a.tidx = [i]) (hrhs : Dense1.rhsIdx i a.rhs = true) :
    generateIr ofRat cap a formats (graph i outT bT cT) .compute =
      .ok (kernelC ofRat formats i outT bT cT) :=
  generateIr_eqC ofRat cap a formats i outT bT cT hout (Dense1.tensorId_name hout) hcl hf
    (Dense1.indexDimensions_eq a i hidx hrhs)

/-! ### A2: the assembling kernel -/

/-- **A2 (the generated `assemble` kernel is correct).** Under the static hypotheses of
`spadd_kernel_correct`, for ANY initial capacity `1 ≤ capVal cap < 2^31` and any kernel-call state `σ`
(`Init`) whose inputs have `mb + mc ≤ 2^30` stored int32 coordinates (sortedness is NOT needed, nor any
hypothesis on the values): the function `generateIr … .assemble` produces runs with any fuel `≥ mb + mc + 1`
WITHOUT ERROR, **returns `0`** after exactly `|H| ≤ mb + mc` loop iterations (over the three loops), and in the final state, with `H` the
reference union `H = union (assoc mb crdB cellsB) (assoc mc crdC cellsC)`,
* the output record (still output-owned, same order and dimensions block) has slot 0 = (`pos`, `crd`) and
  `vals` = the base addresses of three different FRESH blocks, live and output-owned;
* the `pos` block is exactly `[0, |H|]`; the `crd` block is exactly the coordinates of `H`;
* the `vals` block is a `float` block of exactly `|H| + 1` cells — the size the `evaluate` kernel leaves
  (`spadd_kernel_correct`); its CONTENTS ARE UNSPECIFIED (the kernel never stores into it);
* every other tensor record and EVERY block of the initial heap (all inputs) is unchanged. -/
theorem spadd_assemble_correct (ofRat : Rat → F) (cap : Option Int) (a : Alg.DAssign) (formats : Formats)
    (i : String) (outT bT cT : TensorId)
    (hout : tensorId 0 a.tname formats a.tidx = some outT)
    (hcl : isClass i outT bT cT = true) (hf : sparseFormats formats = true)
    (hidx : a.tidx = [i]) (hrhs : Dense1.rhsIdx i a.rhs = true) (ok : KernelOK formats i outT bT cT)
    (hk0 : 1 ≤ capVal cap) (hk1 : capVal cap < 2147483648)
    (ta : Nat) (atr : TensorRec F) (n : Int)
    (tb : Nat) (btr : TensorRec F) (mb bpb bcb bvb : Nat) (crdB : Nat → Int) (cellsB : Nat → F)
    (tc : Nat) (ctr : TensorRec F) (mc cpb ccb cvb : Nat) (crdC : Nat → Int) (cellsC : Nat → F)
    (σ : State F)
    (init : Init outT bT cT ta atr n tb btr mb bpb bcb bvb crdB cellsB tc ctr mc cpb ccb cvb crdC cellsC σ)
    (hsum : mb + mc ≤ 1073741824)
    (hrngB : ∀ j, j < mb → -2147483648 ≤ crdB j ∧ crdB j < 2147483648)
    (hrngC : ∀ j, j < mc → -2147483648 ≤ crdC j ∧ crdC j < 2147483648)
    (f : Func F) (hgen : generateIr ofRat cap a formats (graph i outT bT cT) .assemble = .ok f)
    (fuel : Nat) (hfuel : mb + mc + 1 ≤ fuel) :
    ∃ o, exec fuel f.body σ = .ok o ∧ o.ret = some (.int 0) ∧ o.iters ≤ mb + mc ∧
      o.iters = (union (assoc mb crdB cellsB) (assoc mc crdC cellsC)).length ∧
      (∃ tr' pF cF vF vblk, o.st.tensors[ta]? = some tr' ∧ tr'.owner = .output ∧ tr'.order = atr.order ∧
        tr'.dimsBlk = atr.dimsBlk ∧ tr'.slots = atr.slots.set 0 (some (.ptr pF 0, .ptr cF 0)) ∧
        tr'.vals = .ptr vF 0 ∧
        σ.heap.length ≤ pF ∧ σ.heap.length ≤ cF ∧ σ.heap.length ≤ vF ∧ pF ≠ cF ∧ pF ≠ vF ∧ cF ≠ vF ∧
        o.st.heap[pF]? = some ⟨.int, [some (.int 0), some (.int
          (union (assoc mb crdB cellsB) (assoc mc crdC cellsC)).length)], .output, true⟩ ∧
        o.st.heap[cF]? = some ⟨.int, (union (assoc mb crdB cellsB) (assoc mc crdC cellsC)).map
          (fun p => some (.int p.1)), .output, true⟩ ∧
        o.st.heap[vF]? = some vblk ∧ vblk.live = true ∧ vblk.owner = .output ∧ vblk.ty = .float ∧
        vblk.cells.length = (union (assoc mb crdB cellsB) (assoc mc crdC cellsC)).length + 1) ∧
      (∀ k, k ≠ ta → o.st.tensors[k]? = σ.tensors[k]?) ∧
      o.st.tensors.length = σ.tensors.length ∧
      (∀ k, k < σ.heap.length → o.st.heap[k]? = σ.heap[k]?) := by
  rw [spadd_generateIr_assemble_eq ofRat cap a formats i outT bT cT hout hcl hf hidx hrhs] at hgen
  cases hgen
  obtain ⟨o, eo, hret, hit, hit2, hp⟩ := kernel_runsA cap formats i outT bT cT hcl ok hk0 hk1 init hsum hrngB hrngC
    fuel hfuel
  exact ⟨o, eo, hret, hit, hit2, hp.outRec, hp.otherRecs, hp.tlen, hp.heap⟩

/-! ### A3: the computing kernel -/

/-- **A3 (the generated `compute` kernel is correct, from ANY suitable state).** Under the static hypotheses
of `spadd_kernel_correct`, let `σ` be a kernel-call state (`InitC`: the variables are exactly the three tensor
parameters; the output record `ta` = `atr` is output-owned, its slot 0 holds two pointers or `NULL`s — they
are never dereferenced —, and `atr.vals` is the base address of a live, output-owned `float` block `vF` of AT
LEAST `r` cells, different from the six blocks of the inputs), where `r` is at least the number `|H|` of
coordinates stored by at least one operand; `mb + mc ≤ 2^30`, int32 coordinates, every stored value finite and
`b[q] + c[r]` finite wherever the two operands store the same coordinate. This covers the state the assembling kernel
leaves (`spadd_assemble_compute_eq_evaluate`). Then the function `generateIr … .compute` produces runs with any
fuel `≥ mb + mc + 1` WITHOUT ERROR, **returns `0`** after at most `mb + mc` loop iterations, and
* **no allocation**: the heap has the same length;
* **the structure is untouched**: ALL tensor records are unchanged (the output record keeps its slots and
  `vals` — same block ids), and every heap block other than `vF` is unchanged (the output's `pos`/`crd`
  blocks, every input, everything else);
* **it writes only inside the value array**: block `vF` keeps type, owner, liveness and LENGTH; its cells
  `j < |H|` hold the values of `H` (`b + c`, `b` or `c` at the coordinates of the union, in order); its cells
  `j ≥ |H|` are unchanged. -/
theorem spadd_compute_correct (ofRat : Rat → F) (cap : Option Int) (a : Alg.DAssign) (formats : Formats)
    (i : String) (outT bT cT : TensorId)
    (hout : tensorId 0 a.tname formats a.tidx = some outT)
    (hcl : isClass i outT bT cT = true) (hf : sparseFormats formats = true)
    (hidx : a.tidx = [i]) (hrhs : Dense1.rhsIdx i a.rhs = true) (ok : KernelOK formats i outT bT cT)
    (ta : Nat) (atr : TensorRec F) (n : Int)
    (tb : Nat) (btr : TensorRec F) (mb bpb bcb bvb : Nat) (crdB : Nat → Int) (cellsB : Nat → F)
    (tc : Nat) (ctr : TensorRec F) (mc cpb ccb cvb : Nat) (crdC : Nat → Int) (cellsC : Nat → F)
    (r vF : Nat) (σ : State F)
    (init : InitC outT bT cT ta atr n tb btr mb bpb bcb bvb crdB cellsB tc ctr mc cpb ccb cvb crdC cellsC r vF σ)
    (hsum : mb + mc ≤ 1073741824)
    (hlen : (union (assoc mb crdB cellsB) (assoc mc crdC cellsC)).length ≤ r)
    (hrngB : ∀ j, j < mb → -2147483648 ≤ crdB j ∧ crdB j < 2147483648)
    (hrngC : ∀ j, j < mc → -2147483648 ≤ crdC j ∧ crdC j < 2147483648)
    (hfB : ∀ q, q < mb → FloatOps.finite (cellsB q) = true)
    (hfC : ∀ r, r < mc → FloatOps.finite (cellsC r) = true)
    (hfS : ∀ q r, q < mb → r < mc → crdB q = crdC r →
      FloatOps.finite (FloatOps.add (cellsB q) (cellsC r)) = true)
    (f : Func F) (hgen : generateIr ofRat cap a formats (graph i outT bT cT) .compute = .ok f)
    (fuel : Nat) (hfuel : mb + mc + 1 ≤ fuel) :
    ∃ o, exec fuel f.body σ = .ok o ∧ o.ret = some (.int 0) ∧ o.iters ≤ mb + mc ∧
      o.st.tensors = σ.tensors ∧
      o.st.heap.length = σ.heap.length ∧
      (∀ k, k ≠ vF → o.st.heap[k]? = σ.heap[k]?) ∧
      ∃ blk0 blk, σ.heap[vF]? = some blk0 ∧ o.st.heap[vF]? = some blk ∧ blk.ty = blk0.ty ∧
        blk.owner = blk0.owner ∧ blk.live = blk0.live ∧ blk.cells.length = blk0.cells.length ∧
        (∀ j (h : j < (union (assoc mb crdB cellsB) (assoc mc crdC cellsC)).length),
          blk.cells[j]? = some (some (.flt (union (assoc mb crdB cellsB) (assoc mc crdC cellsC))[j].2))) ∧
        (∀ j, (union (assoc mb crdB cellsB) (assoc mc crdC cellsC)).length ≤ j →
          blk.cells[j]? = blk0.cells[j]?) := by
  rw [spadd_generateIr_compute_eq ofRat cap a formats i outT bT cT hout hcl hf hidx hrhs] at hgen
  cases hgen
  obtain ⟨o, eo, hret, hit, hp⟩ := kernel_runsC ofRat formats i outT bT cT hcl ok init hsum hlen hrngB hrngC
    hfB hfC hfS fuel hfuel
  exact ⟨o, eo, hret, hit, hp.tensors, hp.len, hp.other, hp.vals⟩

/-- **A3, in the words of the property: the structure given to `compute` is still there, in the same blocks.**
If moreover the output record's slot 0 is (`pF`, `cF`) with some `pos` block `posBlk` and some `crd` block
`crdBlk` (both different from `vF`), then after the computing kernel the output record is THE SAME record
(`atr`: same slots, same `vals` pointer), blocks `pF` and `cF` are unchanged, the heap has not grown, and block
`vF` has the same length with the values of `H` in its first `|H|` cells. -/
theorem spadd_compute_preserves_structure (ofRat : Rat → F) (cap : Option Int) (a : Alg.DAssign)
    (formats : Formats) (i : String) (outT bT cT : TensorId)
    (hout : tensorId 0 a.tname formats a.tidx = some outT)
    (hcl : isClass i outT bT cT = true) (hf : sparseFormats formats = true)
    (hidx : a.tidx = [i]) (hrhs : Dense1.rhsIdx i a.rhs = true) (ok : KernelOK formats i outT bT cT)
    (ta : Nat) (atr : TensorRec F) (n : Int)
    (tb : Nat) (btr : TensorRec F) (mb bpb bcb bvb : Nat) (crdB : Nat → Int) (cellsB : Nat → F)
    (tc : Nat) (ctr : TensorRec F) (mc cpb ccb cvb : Nat) (crdC : Nat → Int) (cellsC : Nat → F)
    (r pF cF vF : Nat) (posBlk crdBlk : Block F) (σ : State F)
    (init : InitC outT bT cT ta atr n tb btr mb bpb bcb bvb crdB cellsB tc ctr mc cpb ccb cvb crdC cellsC r vF σ)
    (hslot : atr.slots[0]? = some (some (.ptr pF 0, .ptr cF 0)))
    (hpos : σ.heap[pF]? = some posBlk) (hcrd : σ.heap[cF]? = some crdBlk)
    (hpv : pF ≠ vF) (hcv : cF ≠ vF)
    (hsum : mb + mc ≤ 1073741824)
    (hlen : (union (assoc mb crdB cellsB) (assoc mc crdC cellsC)).length ≤ r)
    (hrngB : ∀ j, j < mb → -2147483648 ≤ crdB j ∧ crdB j < 2147483648)
    (hrngC : ∀ j, j < mc → -2147483648 ≤ crdC j ∧ crdC j < 2147483648)
    (hfB : ∀ q, q < mb → FloatOps.finite (cellsB q) = true)
    (hfC : ∀ r, r < mc → FloatOps.finite (cellsC r) = true)
    (hfS : ∀ q r, q < mb → r < mc → crdB q = crdC r →
      FloatOps.finite (FloatOps.add (cellsB q) (cellsC r)) = true)
    (f : Func F) (hgen : generateIr ofRat cap a formats (graph i outT bT cT) .compute = .ok f)
    (fuel : Nat) (hfuel : mb + mc + 1 ≤ fuel) :
    ∃ o, exec fuel f.body σ = .ok o ∧ o.ret = some (.int 0) ∧
      o.st.tensors[ta]? = some atr ∧ atr.slots[0]? = some (some (.ptr pF 0, .ptr cF 0)) ∧
      atr.vals = .ptr vF 0 ∧
      o.st.heap.length = σ.heap.length ∧
      o.st.heap[pF]? = some posBlk ∧ o.st.heap[cF]? = some crdBlk ∧
      ∃ blk0 blk, σ.heap[vF]? = some blk0 ∧ o.st.heap[vF]? = some blk ∧ blk.live = true ∧
        blk.owner = .output ∧ blk.ty = .float ∧ blk.cells.length = blk0.cells.length ∧
        ∀ j (h : j < (union (assoc mb crdB cellsB) (assoc mc crdC cellsC)).length),
          blk.cells[j]? = some (some (.flt (union (assoc mb crdB cellsB) (assoc mc crdC cellsC))[j].2)) := by
  obtain ⟨o, eo, hret, _, ht, hl, hother, blk0, blk, hb0, hb, h1, h2, h3, h4, h5, _⟩ :=
    spadd_compute_correct ofRat cap a formats i outT bT cT hout hcl hf hidx hrhs ok ta atr n tb btr mb bpb bcb
      bvb crdB cellsB tc ctr mc cpb ccb cvb crdC cellsC r vF σ init hsum hlen hrngB hrngC hfB hfC hfS f hgen fuel
      hfuel
  obtain ⟨ablk, hab, halive, haown, haty, _⟩ := init.vblk
  rw [hab] at hb0; cases hb0
  exact ⟨o, eo, hret, by rw [ht]; exact init.base.arec, hslot, init.avalsPtr, hl,
    by rw [hother pF hpv]; exact hpos, by rw [hother cF hcv]; exact hcrd,
    blk0, blk, hab, hb, by rw [h3]; exact halive, by rw [h2]; exact haown, by rw [h1]; exact haty, h4, h5⟩

/-! ### A4: assemble ∘ compute = evaluate; re-running compute -/

/-- **A4 (assemble, then compute, yields what evaluate yields).** Under the hypotheses of
`spadd_kernel_correct` and with an output record different from both input records (`ta ≠ tb`, `ta ≠ tc`):
from the same kernel-call state `σ`,
* the `assemble` function runs and returns `0` (state `oA.st`);
* the `compute` function, called next on the same memory (`nextCall σ oA.st`: the parameter environment of
  the call, heap and records as `assemble` left them), runs and returns `0` (state `oC.st`) WITHOUT allocating
  (`oC.st.heap.length = oA.st.heap.length`) and WITHOUT touching any tensor record
  (`oC.st.tensors = oA.st.tensors`);
* the `evaluate` function runs from `σ` and returns `0` (state `oE.st`);
and the output record after assemble+compute (slots `pC`, `cC`, `vals` `vC`) and after evaluate (`pE`, `cE`,
`vE`) describe the same tensor: the `pos` blocks are EQUAL (`[0, |H|]`), the `crd` blocks are EQUAL (the
coordinates of `H`), and the `vals` blocks are live output `float` blocks of the same length `|H| + 1` whose
first `|H|` cells are equal, namely the values of `H`. (The last cell is scratch in both; block ids are not
compared.) -/
theorem spadd_assemble_compute_eq_evaluate (ofRat : Rat → F) (cap : Option Int) (a : Alg.DAssign)
    (formats : Formats) (i : String) (outT bT cT : TensorId)
    (hout : tensorId 0 a.tname formats a.tidx = some outT)
    (hcl : isClass i outT bT cT = true) (hf : sparseFormats formats = true)
    (hidx : a.tidx = [i]) (hrhs : Dense1.rhsIdx i a.rhs = true) (ok : KernelOK formats i outT bT cT)
    (hk0 : 1 ≤ capVal cap) (hk1 : capVal cap < 2147483648)
    (ta : Nat) (atr : TensorRec F) (n : Int)
    (tb : Nat) (btr : TensorRec F) (mb bpb bcb bvb : Nat) (crdB : Nat → Int) (cellsB : Nat → F)
    (tc : Nat) (ctr : TensorRec F) (mc cpb ccb cvb : Nat) (crdC : Nat → Int) (cellsC : Nat → F)
    (hab : ta ≠ tb) (hac : ta ≠ tc) (σ : State F)
    (init : Init outT bT cT ta atr n tb btr mb bpb bcb bvb crdB cellsB tc ctr mc cpb ccb cvb crdC cellsC σ)
    (hsum : mb + mc ≤ 1073741824)
    (hrngB : ∀ j, j < mb → -2147483648 ≤ crdB j ∧ crdB j < 2147483648)
    (hrngC : ∀ j, j < mc → -2147483648 ≤ crdC j ∧ crdC j < 2147483648)
    (hfB : ∀ q, q < mb → FloatOps.finite (cellsB q) = true)
    (hfC : ∀ r, r < mc → FloatOps.finite (cellsC r) = true)
    (hfS : ∀ q r, q < mb → r < mc → crdB q = crdC r →
      FloatOps.finite (FloatOps.add (cellsB q) (cellsC r)) = true)
    (fA fC fE : Func F)
    (hgenA : generateIr ofRat cap a formats (graph i outT bT cT) .assemble = .ok fA)
    (hgenC : generateIr ofRat cap a formats (graph i outT bT cT) .compute = .ok fC)
    (hgenE : generateIr ofRat cap a formats (graph i outT bT cT) .evaluate = .ok fE)
    (fuel : Nat) (hfuel : mb + mc + 1 ≤ fuel) :
    ∃ oA oC oE,
      exec fuel fA.body σ = .ok oA ∧ oA.ret = some (.int 0) ∧
      exec fuel fC.body (nextCall σ oA.st) = .ok oC ∧ oC.ret = some (.int 0) ∧
      oC.st.heap.length = oA.st.heap.length ∧ oC.st.tensors = oA.st.tensors ∧
      exec fuel fE.body σ = .ok oE ∧ oE.ret = some (.int 0) ∧
      ∃ trC trE pC cC vC pE cE vE blkC blkE,
        oC.st.tensors[ta]? = some trC ∧ oE.st.tensors[ta]? = some trE ∧
        trC.slots = atr.slots.set 0 (some (.ptr pC 0, .ptr cC 0)) ∧ trC.vals = .ptr vC 0 ∧
        trE.slots = atr.slots.set 0 (some (.ptr pE 0, .ptr cE 0)) ∧ trE.vals = .ptr vE 0 ∧
        trC.owner = trE.owner ∧ trC.order = trE.order ∧ trC.dimsBlk = trE.dimsBlk ∧
        oC.st.heap[pC]? = some ⟨.int, [some (.int 0), some (.int
          (union (assoc mb crdB cellsB) (assoc mc crdC cellsC)).length)], .output, true⟩ ∧
        oC.st.heap[pC]? = oE.st.heap[pE]? ∧
        oC.st.heap[cC]? = some ⟨.int, (union (assoc mb crdB cellsB) (assoc mc crdC cellsC)).map
          (fun p => some (.int p.1)), .output, true⟩ ∧
        oC.st.heap[cC]? = oE.st.heap[cE]? ∧
        oC.st.heap[vC]? = some blkC ∧ oE.st.heap[vE]? = some blkE ∧
        blkC.ty = blkE.ty ∧ blkC.owner = blkE.owner ∧ blkC.live = blkE.live ∧
        blkC.cells.length = (union (assoc mb crdB cellsB) (assoc mc crdC cellsC)).length + 1 ∧
        blkE.cells.length = (union (assoc mb crdB cellsB) (assoc mc crdC cellsC)).length + 1 ∧
        (∀ j, j < (union (assoc mb crdB cellsB) (assoc mc crdC cellsC)).length →
          blkC.cells[j]? = blkE.cells[j]?) ∧
        (∀ j (h : j < (union (assoc mb crdB cellsB) (assoc mc crdC cellsC)).length),
          blkC.cells[j]? = some (some (.flt (union (assoc mb crdB cellsB) (assoc mc crdC cellsC))[j].2))) ∧
        (∀ k, k ≠ ta → oC.st.tensors[k]? = σ.tensors[k]?) ∧
        (∀ k, k < σ.heap.length → oC.st.heap[k]? = σ.heap[k]?) := by
  -- assemble
  obtain ⟨oA, eA, rA, _, _, hpA⟩ : ∃ o, exec fuel fA.body σ = .ok o ∧ o.ret = some (.int 0) ∧
      o.iters ≤ mb + mc ∧ o.iters = (union (assoc mb crdB cellsB) (assoc mc crdC cellsC)).length ∧
      KernelPostA ta atr (union (assoc mb crdB cellsB) (assoc mc crdC cellsC)) σ o.st := by
    rw [spadd_generateIr_assemble_eq ofRat cap a formats i outT bT cT hout hcl hf hidx hrhs] at hgenA
    cases hgenA
    exact kernel_runsA cap formats i outT bT cT hcl ok hk0 hk1 init hsum hrngB hrngC fuel hfuel
  obtain ⟨trA, pF, cF, vF, vblkA, h1, h2, h3, h4, h5, h6, h7, h8, h9, h10, h11, h12, h13, h14, h15, h16, h17,
    h18, h19, initC⟩ := initC_after_assemble init hab hac hpA
  -- compute
  obtain ⟨oC, eC, rC, _, htC, hlC, hoC, blk0, blkC, hb0, hbC, c1, c2, c3, c4, c5, _⟩ :=
    spadd_compute_correct ofRat cap a formats i outT bT cT hout hcl hf hidx hrhs ok ta trA n tb btr mb bpb bcb
      bvb crdB cellsB tc ctr mc cpb ccb cvb crdC cellsC _ vF (nextCall σ oA.st) initC hsum (Nat.le_refl _)
      hrngB hrngC hfB hfC hfS fC hgenC fuel hfuel
  have hb0' : oA.st.heap[vF]? = some blk0 := hb0
  rw [h15] at hb0'; cases hb0'
  -- evaluate
  obtain ⟨oE, eE, rE, _, _, ⟨trE, pE, cE, vE, vblkE, g1, g2, g3, g4, g5, g6, _, _, _, _, _, _, g13, g14, g15, g16,
    g17, g18, g19, g20⟩, _⟩ :=
    spadd_kernel_correct ofRat cap a formats i outT bT cT hout hcl hf hidx hrhs ok hk0 hk1 ta atr n tb btr mb
      bpb bcb bvb crdB cellsB tc ctr mc cpb ccb cvb crdC cellsC σ init hsum hrngB hrngC hfB hfC hfS fE hgenE fuel
      hfuel
  have hposC : oC.st.heap[pF]? = some ⟨.int, [some (.int 0), some (.int
      (union (assoc mb crdB cellsB) (assoc mc crdC cellsC)).length)], .output, true⟩ := by
    rw [hoC pF h11]; exact h13
  have hcrdC : oC.st.heap[cF]? = some ⟨.int, (union (assoc mb crdB cellsB) (assoc mc crdC cellsC)).map
      (fun p => some (.int p.1)), .output, true⟩ := by
    rw [hoC cF h12]; exact h14
  refine ⟨oA, oC, oE, eA, rA, eC, rC, hlC, htC, eE, rE, trA, trE, pF, cF, vF, pE, cE, vE, blkC, vblkE,
    by rw [htC]; exact h1, g1, h5, h6, g5, g6, by rw [h2, g2], by rw [h3, g3], by rw [h4, g4],
    hposC, by rw [hposC, g13], hcrdC, by rw [hcrdC, g14], hbC, g15, by rw [c1, h18, g18],
    by rw [c2, h17, g17], by rw [c3, h16, g16], by rw [c4, h19], g19, ?_, c5, ?_, ?_⟩
  · intro j hj
    rw [c5 j hj, g20 j hj]
  · intro k hk
    rw [htC]
    exact hpA.otherRecs k hk
  · intro k hk
    rw [hoC k (by omega)]
    exact hpA.heap k hk

/-- **A4, re-running `compute` with new input values.** Let `σ` be a state from which `compute` may be called
(`InitC`, e.g. the state after `assemble`), with input values `cellsB`, `cellsC`; run `compute` (→ `o1.st`). Let
`σ2` be ANY state in which the next call may start after the caller has overwritten the VALUES of both inputs:
the parameter environment of `σ`, the tensor records of `o1.st`, a heap of the same length that agrees with
`o1.st`'s everywhere except at the inputs' `vals` blocks `bvb`, `cvb`, which are now some live `float` blocks
whose first `mb` / `mc` cells hold `cellsB'` / `cellsC'` (same coordinates; finiteness as before). Then
`compute` runs again from `σ2`, returns `0`, and in its final state `o2.st`
* all tensor records are still those of the FIRST initial state `σ` and the heap still has the length of
  `σ`'s heap: neither call allocated or touched the structure;
* every block other than the output's `vals` block `vF` and the inputs' `vals` blocks is as in `σ` (in
  particular the output's `pos`/`crd` blocks);
* block `vF` — the same block — has its original type, owner, liveness and length and now holds the NEW values
  (those of `H' = union (assoc mb crdB cellsB') (assoc mc crdC cellsC')`, which has the coordinates and the
  length of `H`: `union_assoc_coords`) in its first `|H|` cells. -/
theorem spadd_compute_rerun (ofRat : Rat → F) (cap : Option Int) (a : Alg.DAssign) (formats : Formats)
    (i : String) (outT bT cT : TensorId)
    (hout : tensorId 0 a.tname formats a.tidx = some outT)
    (hcl : isClass i outT bT cT = true) (hf : sparseFormats formats = true)
    (hidx : a.tidx = [i]) (hrhs : Dense1.rhsIdx i a.rhs = true) (ok : KernelOK formats i outT bT cT)
    (ta : Nat) (atr : TensorRec F) (n : Int)
    (tb : Nat) (btr : TensorRec F) (mb bpb bcb bvb : Nat) (crdB : Nat → Int) (cellsB cellsB' : Nat → F)
    (tc : Nat) (ctr : TensorRec F) (mc cpb ccb cvb : Nat) (crdC : Nat → Int) (cellsC cellsC' : Nat → F)
    (r vF : Nat) (σ : State F)
    (init : InitC outT bT cT ta atr n tb btr mb bpb bcb bvb crdB cellsB tc ctr mc cpb ccb cvb crdC cellsC r vF σ)
    (hsum : mb + mc ≤ 1073741824)
    (hlen : (union (assoc mb crdB cellsB) (assoc mc crdC cellsC)).length ≤ r)
    (hrngB : ∀ j, j < mb → -2147483648 ≤ crdB j ∧ crdB j < 2147483648)
    (hrngC : ∀ j, j < mc → -2147483648 ≤ crdC j ∧ crdC j < 2147483648)
    (hfB : ∀ q, q < mb → FloatOps.finite (cellsB q) = true)
    (hfC : ∀ r, r < mc → FloatOps.finite (cellsC r) = true)
    (hfS : ∀ q r, q < mb → r < mc → crdB q = crdC r →
      FloatOps.finite (FloatOps.add (cellsB q) (cellsC r)) = true)
    (hfB' : ∀ q, q < mb → FloatOps.finite (cellsB' q) = true)
    (hfC' : ∀ r, r < mc → FloatOps.finite (cellsC' r) = true)
    (hfS' : ∀ q r, q < mb → r < mc → crdB q = crdC r →
      FloatOps.finite (FloatOps.add (cellsB' q) (cellsC' r)) = true)
    (f : Func F) (hgen : generateIr ofRat cap a formats (graph i outT bT cT) .compute = .ok f)
    (fuel : Nat) (hfuel : mb + mc + 1 ≤ fuel) :
    ∃ o1, exec fuel f.body σ = .ok o1 ∧ o1.ret = some (.int 0) ∧
      o1.st.tensors = σ.tensors ∧ o1.st.heap.length = σ.heap.length ∧
      ∀ σ2 : State F, σ2.vars = σ.vars → σ2.tensors = o1.st.tensors →
        σ2.heap.length = o1.st.heap.length → (∀ k, k ≠ bvb → k ≠ cvb → σ2.heap[k]? = o1.st.heap[k]?) →
        (∃ blk, σ2.heap[bvb]? = some blk ∧ blk.live = true ∧ blk.ty = .float ∧
          ∀ j, j < mb → blk.cells[j]? = some (some (.flt (cellsB' j)))) →
        (∃ blk, σ2.heap[cvb]? = some blk ∧ blk.live = true ∧ blk.ty = .float ∧
          ∀ j, j < mc → blk.cells[j]? = some (some (.flt (cellsC' j)))) →
        ∃ o2, exec fuel f.body σ2 = .ok o2 ∧ o2.ret = some (.int 0) ∧
          o2.st.tensors = σ.tensors ∧ o2.st.heap.length = σ.heap.length ∧
          (∀ k, k ≠ vF → k ≠ bvb → k ≠ cvb → o2.st.heap[k]? = σ.heap[k]?) ∧
          ∃ blk0 blk, σ.heap[vF]? = some blk0 ∧ o2.st.heap[vF]? = some blk ∧ blk.ty = blk0.ty ∧
            blk.owner = blk0.owner ∧ blk.live = blk0.live ∧ blk.cells.length = blk0.cells.length ∧
            (union (assoc mb crdB cellsB') (assoc mc crdC cellsC')).length =
              (union (assoc mb crdB cellsB) (assoc mc crdC cellsC)).length ∧
            (∀ j (h : j < (union (assoc mb crdB cellsB') (assoc mc crdC cellsC')).length),
              blk.cells[j]? =
                some (some (.flt (union (assoc mb crdB cellsB') (assoc mc crdC cellsC'))[j].2))) ∧
            (∀ j, (union (assoc mb crdB cellsB) (assoc mc crdC cellsC)).length ≤ j →
              blk.cells[j]? = blk0.cells[j]?) := by
  obtain ⟨o1, e1, r1, _, ht1, hl1, ho1, blk0, blk1, hb0, hb1, a1, a2, a3, a4, _, a6⟩ :=
    spadd_compute_correct ofRat cap a formats i outT bT cT hout hcl hf hidx hrhs ok ta atr n tb btr mb bpb bcb
      bvb crdB cellsB tc ctr mc cpb ccb cvb crdC cellsC r vF σ init hsum hlen hrngB hrngC hfB hfC hfS f hgen fuel
      hfuel
  refine ⟨o1, e1, r1, ht1, hl1, ?_⟩
  intro σ2 hv ht hl hh hvalB hvalC
  have hLen := union_assoc_length mb mc crdB crdC cellsB' cellsC' cellsB cellsC
  obtain ⟨d0, ⟨dB1, dB2, dB3, dB4, dB5⟩, ⟨dC1, dC2, dC3, dC4, dC5⟩⟩ := Spmul.InitC.int_blocks_ne init
  obtain ⟨v1, v2, v3, v4, v5, v6⟩ := init.vne
  obtain ⟨ablk, hab, halive, haown, haty, halen⟩ := init.vblk
  rw [hab] at hb0; cases hb0
  have hvF2 : σ2.heap[vF]? = some blk1 := by rw [hh vF v3 v6]; exact hb1
  have init2 : InitC outT bT cT ta atr n tb btr mb bpb bcb bvb crdB cellsB' tc ctr mc cpb ccb cvb crdC cellsC'
      r vF σ2 :=
    Spmul.InitC.transport init hv (by rw [ht, ht1])
      (by rw [hh _ dB1 dC1, ho1 _ d0])
      (by rw [hh _ dB2 dC2, ho1 _ (Ne.symm v1)])
      (by rw [hh _ dB3 dC3, ho1 _ (Ne.symm v2)])
      (by rw [hh _ dB4 dC4, ho1 _ (Ne.symm v4)])
      (by rw [hh _ dB5 dC5, ho1 _ (Ne.symm v5)])
      hvalB hvalC
      ⟨blk1, hvF2, by rw [a3]; exact halive, by rw [a2]; exact haown, by rw [a1]; exact haty,
        by rw [a4]; exact halen⟩
  obtain ⟨o2, e2, r2, _, ht2, hl2, ho2, blk0', blk2, hb0', hb2, b1, b2, b3, b4, b5, b6⟩ :=
    spadd_compute_correct ofRat cap a formats i outT bT cT hout hcl hf hidx hrhs ok ta atr n tb btr mb bpb bcb
      bvb crdB cellsB' tc ctr mc cpb ccb cvb crdC cellsC' r vF σ2 init2 hsum (by rw [hLen]; exact hlen)
      hrngB hrngC hfB' hfC' hfS' f hgen fuel hfuel
  rw [hvF2] at hb0'; cases hb0'
  refine ⟨o2, e2, r2, by rw [ht2, ht, ht1], by rw [hl2, hl, hl1], ?_, blk0, blk2, hab, hb2,
    by rw [b1, a1], by rw [b2, a2], by rw [b3, a3], by rw [b4, a4], hLen, b5, ?_⟩
  · intro k hk1 hk2 hk3
    rw [ho2 k hk1, hh k hk2 hk3, ho1 k hk1]
  · intro j hj
    rw [b6 j (by rw [hLen]; exact hj), a6 j hj]

end

/-! ### non-vacuity -/
open TV.Spmul (exFormats exOut exB exC exCrdB exCellsB exKernelOK exSortedB exRangeB exCells3 exOfRat)

/-- the hypotheses of A1 hold on the closed instance of `C01Spadd.lean`: both kernels are generated -/
example : generateIr (F := Int) exOfRat (some 1) exAssign exFormats (graph "i" exOut exB exC) .assemble =
      .ok (kernelA (some 1) exFormats "i" exOut exB exC) ∧
    generateIr (F := Int) exOfRat (some 1) exAssign exFormats (graph "i" exOut exB exC) .compute =
      .ok (kernelC exOfRat exFormats "i" exOut exB exC) :=
  ⟨spadd_generateIr_assemble_eq exOfRat (some 1) exAssign exFormats "i" exOut exB exC (by decide) (by decide)
      (by decide) rfl (by decide),
   spadd_generateIr_compute_eq exOfRat (some 1) exAssign exFormats "i" exOut exB exC (by decide) (by decide)
      (by decide) rfl (by decide)⟩


/-- **A1–A4 are not vacuous** (over `Int`, initial capacity 1 — `assemble` reallocates both `crd` and `vals`,
twice): on the closed instance of `C01Spadd.lean` every hypothesis holds, `generateIr` produces the three kernels,
`assemble` returns `0`, `compute` called next returns `0` without allocating, and the output record then
points to `pos = [0, 4]`, `crd = [0, 2, 3, 5]`, `vals = [1, 12, 20, 3, ·]` (5 cells) — what `evaluate` leaves
(`spadd_example`). -/
example : ∃ fA fC oA oC,
    generateIr exOfRat (some 1) exAssign exFormats (graph "i" exOut exB exC) .assemble = .ok fA ∧
    generateIr exOfRat (some 1) exAssign exFormats (graph "i" exOut exB exC) .compute = .ok fC ∧
    exec 6 fA.body (exStateOf (F := Int) id) = .ok oA ∧ oA.ret = some (.int 0) ∧
    exec 6 fC.body (nextCall (exStateOf (F := Int) id) oA.st) = .ok oC ∧ oC.ret = some (.int 0) ∧
    oC.st.heap.length = oA.st.heap.length ∧ oC.st.tensors = oA.st.tensors ∧
    ∃ tr' pF cF vF vblk, oC.st.tensors[0]? = some tr' ∧
      tr'.slots = [some (.ptr pF 0, .ptr cF 0)] ∧ tr'.vals = .ptr vF 0 ∧
      oC.st.heap[pF]? = some ⟨.int, [some (.int 0), some (.int 4)], .output, true⟩ ∧
      oC.st.heap[cF]? = some ⟨.int, [some (.int 0), some (.int 2), some (.int 3), some (.int 5)], .output, true⟩ ∧
      oC.st.heap[vF]? = some vblk ∧ vblk.cells.length = 5 ∧
      vblk.cells[0]? = some (some (.flt 1)) ∧ vblk.cells[1]? = some (some (.flt 12)) ∧
      vblk.cells[2]? = some (some (.flt 20)) ∧ vblk.cells[3]? = some (some (.flt 3)) := by
  have hgenA := spadd_generateIr_assemble_eq exOfRat (some 1) exAssign exFormats "i" exOut exB exC
    (by decide) (by decide) (by decide) rfl (by decide)
  have hgenC := spadd_generateIr_compute_eq exOfRat (some 1) exAssign exFormats "i" exOut exB exC
    (by decide) (by decide) (by decide) rfl (by decide)
  have hgenE := spadd_generateIr_eq exOfRat (some 1) exAssign exFormats "i" exOut exB exC (by decide)
    (by decide) (by decide) rfl (by decide)
  obtain ⟨oA, oC, oE, eA, rA, eC, rC, hl, ht, _, _, trC, trE, pC, cC, vC, pE, cE, vE, blkC, blkE, h1, _, h3, h4,
    _, _, _, _, _, h10, _, h12, _, h14, _, _, _, _, h19, _, _, h22, _⟩ :=
    spadd_assemble_compute_eq_evaluate exOfRat (some 1) exAssign exFormats "i" exOut exB exC (by decide)
      (by decide) (by decide) rfl (by decide) exKernelOK (by decide) (by decide) 0 _ 6 1 _ 3 2 3 4 exCrdB
      (exCellsB (F := Int) id) 2 _ 2 6 7 8 exCrdC (exCellsC (F := Int) id) (by decide) (by decide) _
      (exInitOf (F := Int) id) (by decide) exRangeB exRangeC
      (fun _ _ => rfl) (fun _ _ => rfl) (fun _ _ _ _ _ => rfl) _ _ _ hgenA hgenC hgenE 6 (by decide)
  rw [exUnion] at h10 h12 h19 h22
  exact ⟨_, _, oA, oC, hgenA, hgenC, eA, rA, eC, rC, hl, ht, trC, pC, cC, vC, blkC, h1, h3, h4, h10, h12, h14,
    h19, h22 0 (by decide), h22 1 (by decide), h22 2 (by decide), h22 3 (by decide)⟩

/-- **A2 alone on the instance**: after `assemble` (capacity 1) the output record points to `pos = [0, 4]`,
`crd = [0, 2, 3, 5]` and a `vals` block of exactly 5 cells -/
example : ∃ f o, generateIr exOfRat (some 1) exAssign exFormats (graph "i" exOut exB exC) .assemble = .ok f ∧
    exec 6 f.body (exStateOf (F := Int) id) = .ok o ∧ o.ret = some (.int 0) ∧
    ∃ tr' pF cF vF vblk, o.st.tensors[0]? = some tr' ∧
      tr'.slots = [some (.ptr pF 0, .ptr cF 0)] ∧ tr'.vals = .ptr vF 0 ∧
      o.st.heap[pF]? = some ⟨.int, [some (.int 0), some (.int 4)], .output, true⟩ ∧
      o.st.heap[cF]? = some ⟨.int, [some (.int 0), some (.int 2), some (.int 3), some (.int 5)], .output, true⟩ ∧
      o.st.heap[vF]? = some vblk ∧ vblk.live = true ∧ vblk.ty = .float ∧ vblk.cells.length = 5 := by
  have hgen := spadd_generateIr_assemble_eq exOfRat (some 1) exAssign exFormats "i" exOut exB exC
    (by decide) (by decide) (by decide) rfl (by decide)
  obtain ⟨o, eo, hret, _, _, ⟨tr', pF, cF, vF, vblk, h1, _, _, _, h5, h6, _, _, _, _, _, _, h13, h14, h15, h16, _,
    h18, h19⟩, _⟩ :=
    spadd_assemble_correct exOfRat (some 1) exAssign exFormats "i" exOut exB exC (by decide) (by decide)
      (by decide) rfl (by decide) exKernelOK (by decide) (by decide) 0 _ 6 1 _ 3 2 3 4 exCrdB
      (exCellsB (F := Int) id) 2 _ 2 6 7 8 exCrdC (exCellsC (F := Int) id) _ (exInitOf (F := Int) id)
      (by decide) exRangeB exRangeC _ hgen 6 (by decide)
  rw [exUnion] at h13 h14 h19
  exact ⟨_, o, hgen, eo, hret, tr', pF, cF, vF, vblk, h1, h5, h6, h13, h14, h15, h16, h18, h19⟩

end TV.Spadd

/-!
# C04 for the CSR matrix copy / scale kernels (class `Csr`: `a(i,j) = e`, `a: ds`, `B: ds`)

The assemble / compute kernels of the class of `Props/C01Csr.lean` (`Csr.isDS`, `Csr.isExpr`, graph
`Csr.graph i j outT e`).

* **A1** `csr_generateIr_assemble_eq`, `csr_generateIr_compute_eq` — what `generateIr` emits for the kinds
  `.assemble` / `.compute`, written out (`Csr.kernelA`, `Csr.kernelC`, `Lemmas/AsmCmp2CsrModel.lean`).
* **A2** `csr_assemble_correct` — the assembling kernel from a kernel-call state (`Csr.Init`), any initial
  capacity `≥ 1`: returns `0` after `n + nnz` iterations, `pos` = the `n + 1` positions of `B`, `crd` = its `nnz`
  columns (exact sizes), a `vals` block of exactly `nnz + 1` cells (the size `evaluate` leaves; contents
  unspecified — the kernel never stores into it), inputs untouched.
* **A3** `csr_compute_correct` — the computing kernel from ANY kernel-call state whose output record owns a live
  `vals` block of at least `nnz` cells (`Csr.InitC`): returns `0`, NO allocation (heap length unchanged), ALL
  tensor records unchanged, every block other than `vals` unchanged (in particular the output's `pos`/`crd`
  blocks), `vals[q] = ⟦e⟧` at `B`'s `q`-th entry for `q < nnz`, cells `≥ nnz` unchanged.
* **A4** `csr_assemble_compute_eq_evaluate` — assemble, then compute in the next call (`AsmCmp.nextCall`), gives
  the same `pos` block, the same `crd` block and a `vals` block of the same shape with the same first `nnz`
  cells as `evaluate` (`csr_kernel_correct`) from the same initial state; `csr_compute_rerun` — after changing
  the input VALUES (same structure) a second compute call yields the new values in the same blocks, without
  allocation.
* non-vacuity: the closed instance of `C01Csr.lean` (`B = [[1,0,2],[0,0,0],[0,3,0]]`, `a(i,j) = 2 * B(i,j)`,
  capacity 1): both kernels are generated; `assemble` leaves `pos = [0,2,2,3]`, `crd = [0,2,1]` and a 4-cell
  `vals` block; `assemble` then `compute` leave `vals = [2,4,6,·]`; after overwriting `B`'s values by
  `[10,20,30]` a second `compute` leaves `[20,40,60]` in the same block.

Vocabulary: `Lemmas/AsmCmp2CsrModel.lean` (emitted kernels), `AsmCmp2CsrPost.lean` (`KernelPostA`, `InitC`,
`KernelPostC`), `AsmCmp2CsrAsm*.lean` (assemble chain, `kernel_runsA`), `AsmCmp2CsrCmp*.lean` (compute chain,
`kernel_runsC`), `AsmCmp2CsrCompose.lean` (`Ctx.next`, `initC_after_assemble`, `InitC.transport`).
-/
namespace TV.Csr
open TV.IR TV.Gen TV.Graph TV.Growth TV.Merge
open TV.Sparse1 (capVal)
open TV.AsmCmp (nextCall)

variable {F : Type} [FloatOps F]

/-! ### A1: what the pass emits -/

/-- **The generated `assemble` kernel.** Under the hypotheses of `csr_generateIr_eq`, `generateIr … .assemble`
succeeds and returns exactly `Csr.kernelA`: the `evaluate` kernel (`Csr.kernel`: extract `i_dim`, `j_dim`;
unpack; output initialisation with `a_1_pos` of `1 * i_dim + 1` cells and `a_1_crd` / `a_vals` of initial
capacity `cap`; the dense outer loop over the rows with the merge loop over the stored entries of each row,
`vals` allocation check, `crd` assembly, `a_1_pos[p_a_0 + 1] = p_a_1` after every row; the cleanup reallocs
and hand-over; `return 0`) in which the terminal block is only `written_a_1 = true;` — no store into `a_vals`;
the right-hand side `e` does not occur in the kernel at all. -/
theorem csr_generateIr_assemble_eq (ofRat : Rat → F) (cap : Option Int) (a : Alg.DAssign) (formats : Formats)
    (i j : String) (outT bT : TensorId) (e : IdExpr)
    (hout : tensorId 0 a.tname formats a.tidx = some outT)
    (hij : i ≠ j) (ho : isDS i j outT = true) (he : isExpr i j bT e = true) (hf : dsFormats formats = true)
    (hidx : a.tidx = [i, j]) (hrhs : DenseN.rhsIdx [i, j] a.rhs = true) :
    generateIr ofRat cap a formats (graph i j outT e) .assemble =
      .ok (kernelA cap formats i j outT bT) :=
  generateIr_eqA ofRat cap a formats i j outT bT e hout (Dense1.tensorId_name hout) hij ho he hf
    (Sparse2.indexDimensions_eq a i j hij hidx hrhs)

/-- **The generated `compute` kernel.** Under the same hypotheses `generateIr … .compute` succeeds and returns
exactly `Csr.kernelC`: extract `i_dim`, `j_dim`; unpack `pos`/`crd` of level 1 and `vals` of every tensor;
`int p_a_1 = 0;` as the ONLY output initialisation; `int i = 0; while (i < i_dim) { int p_a_0 = 0 * i_dim + i;
int p_B_0 = 0 * i_dim + i; if (true) { int p_B_1 = B_1_pos[p_B_0]; int p_B_1_end = B_1_pos[p_B_0 + 1]; while
(true && p_B_1 < p_B_1_end) { int i_B_1 = B_1_crd[p_B_1]; int j = i_B_1; if (true && i_B_1 == j) { bool
written_a_1 = false; { written_a_1 = true; a_vals[p_a_1] = <e>; } if (written_a_1) { p_a_1 = p_a_1 + 1; } }
p_B_1 = p_B_1 + (int)(i_B_1 == j); } } i = i + 1; }`; an EMPTY "Assembling output tensor" block; `return 0` —
no `malloc`/`realloc`, no store into `a_1_pos`, `a_1_crd` or the record; the initial capacity `cap` does not
occur. -/
theorem csr_generateIr_compute_eq (ofRat : Rat → F) (cap : Option Int) (a : Alg.DAssign) (formats : Formats)
    (i j : String) (outT bT : TensorId) (e : IdExpr)
    (hout : tensorId 0 a.tname formats a.tidx = some outT)
    (hij : i ≠ j) (ho : isDS i j outT = true) (he : isExpr i j bT e = true) (hf : dsFormats formats = true)
    (hidx : a.tidx = [i, j]) (hrhs : DenseN.rhsIdx [i, j] a.rhs = true) :
    generateIr ofRat cap a formats (graph i j outT e) .compute =
      .ok (kernelC ofRat formats i j outT bT e) :=
  generateIr_eqC ofRat cap a formats i j outT bT e hout (Dense1.tensorId_name hout) hij ho he hf
    (Sparse2.indexDimensions_eq a i j hij hidx hrhs)

/-! ### A2: the assembling kernel -/

/-- **A2 (the generated `assemble` kernel is correct).** Under the hypotheses of `csr_kernel_correct` (static
hypotheses `Ctx.OK`, kernel-call state `Init`, ANY initial capacity `1 ≤ capVal cap < 2^31`; the finiteness
part `Ctx.OK.fin` is not used by the proof of the run but kept as part of `Ctx.OK`): the function
`generateIr … .assemble` produces runs with any fuel `≥ n + nnz + 1` WITHOUT ERROR, **returns `0`** after EXACTLY
`n + nnz` loop iterations, and in the final state
* the output record (still output-owned, same order and dimensions block) has slot 1 = (`pos`, `crd`) and
  `vals` = the base addresses of three different FRESH blocks, live and output-owned;
* `pos` is EXACTLY the `n + 1` positions of `B`, `crd` is EXACTLY its `nnz` column coordinates;
* the `vals` block is a `float` block of exactly `nnz + 1` cells — the size the `evaluate` kernel leaves
  (`csr_kernel_correct`); its CONTENTS ARE UNSPECIFIED: the kernel allocates it, doubles it in step with the
  cursor ("vals allocation") and `realloc`s it to `p_a_1 + 1` cells in the cleanup, but never stores into it;
* every other tensor record and EVERY block of the initial heap (all inputs) is unchanged. -/
theorem csr_assemble_correct (ofRat : Rat → F) (cap : Option Int) (a : Alg.DAssign) (formats : Formats)
    (i j : String) (outT bT : TensorId) (e : IdExpr)
    (hout : tensorId 0 a.tname formats a.tidx = some outT) (hf : dsFormats formats = true)
    (hidx : a.tidx = [i, j]) (hrhs : DenseN.rhsIdx [i, j] a.rhs = true)
    (hfmt : formats.map (·.1) = [outT.name, bT.name])
    (hk0 : 1 ≤ capVal cap) (hk1 : capVal cap < 2147483648)
    (d : CData F) (ta tb : Nat) (atr btr : TensorRec F) (m : Int) (bp bc bv : Nat) (σ : State F)
    (ok : (Ctx.mk ofRat i j outT bT e d σ.heap σ.tensors ta bp bc bv).OK)
    (init : Init (Ctx.mk ofRat i j outT bT e d σ.heap σ.tensors ta bp bc bv) atr btr tb m σ)
    (f : Func F) (hgen : generateIr ofRat cap a formats (graph i j outT e) .assemble = .ok f)
    (fuel : Nat) (hfuel : d.n + d.nnz + 1 ≤ fuel) :
    ∃ o, exec fuel f.body σ = .ok o ∧ o.ret = some (.int 0) ∧ o.iters = d.n + d.nnz ∧
      (∃ tr' p1 c1 v vblk, o.st.tensors[ta]? = some tr' ∧ tr'.owner = .output ∧
        tr'.order = atr.order ∧ tr'.dimsBlk = atr.dimsBlk ∧
        tr'.slots = atr.slots.set 1 (some (.ptr p1 0, .ptr c1 0)) ∧
        tr'.vals = .ptr v 0 ∧
        [p1, c1, v].Nodup ∧ (∀ x ∈ [p1, c1, v], σ.heap.length ≤ x) ∧
        o.st.heap[p1]? = some ⟨.int, (List.range (d.n + 1)).map (fun r => some (.int (d.pos r))), .output, true⟩ ∧
        o.st.heap[c1]? = some ⟨.int, (List.range d.nnz).map (fun q => some (.int (d.crd q))), .output, true⟩ ∧
        o.st.heap[v]? = some vblk ∧ vblk.live = true ∧ vblk.owner = .output ∧ vblk.ty = .float ∧
        vblk.cells.length = d.nnz + 1) ∧
      (∀ k, k ≠ ta → o.st.tensors[k]? = σ.tensors[k]?) ∧
      o.st.tensors.length = σ.tensors.length ∧
      (∀ k, k < σ.heap.length → o.st.heap[k]? = σ.heap[k]?) := by
  rw [csr_generateIr_assemble_eq ofRat cap a formats i j outT bT e hout ok.hij ok.ho ok.he hf hidx hrhs] at hgen
  cases hgen
  obtain ⟨o, eo, hret, hit, hp⟩ := kernel_runsA ok cap formats hfmt hk0 hk1 init fuel hfuel
  exact ⟨o, eo, hret, hit, hp.outRec, hp.otherRecs, hp.tlen, hp.heap⟩

/-! ### A3: the computing kernel -/

/-- **A3 (the generated `compute` kernel is correct, from ANY suitable state).** Under the static hypotheses of
`csr_kernel_correct` (`Ctx.OK`), let `σ` be a kernel-call state (`InitC`: `Csr.Init` — the variables are exactly
the two tensor parameters, the output record `ta` = `atr` is output-owned, its slot 1 holds two pointers or
`NULL`s, which are never dereferenced — and `atr.vals` is the base address of a live, output-owned `float`
block `vF` of AT LEAST `nnz` cells, different from the three blocks of `B`). This covers the state the
assembling kernel leaves (`csr_assemble_compute_eq_evaluate`). Then the function `generateIr … .compute`
produces runs with any fuel `≥ n + nnz + 1` WITHOUT ERROR, **returns `0`** after exactly `n + nnz` loop
iterations, and
* **no allocation**: the heap has the same length;
* **the structure is untouched**: ALL tensor records are unchanged (the output record keeps its slots and
  `vals` — same block ids), and every heap block other than `vF` is unchanged (the output's `pos`/`crd`
  blocks, every input, everything else);
* **it writes only inside the value array**: block `vF` keeps type, owner, liveness and LENGTH; its cells
  `q < nnz` hold `valueF ofRat (B ↦ vals q) e`; its cells `q ≥ nnz` are unchanged. -/
theorem csr_compute_correct (ofRat : Rat → F) (cap : Option Int) (a : Alg.DAssign) (formats : Formats)
    (i j : String) (outT bT : TensorId) (e : IdExpr)
    (hout : tensorId 0 a.tname formats a.tidx = some outT) (hf : dsFormats formats = true)
    (hidx : a.tidx = [i, j]) (hrhs : DenseN.rhsIdx [i, j] a.rhs = true)
    (hfmt : formats.map (·.1) = [outT.name, bT.name])
    (d : CData F) (ta tb : Nat) (atr btr : TensorRec F) (m : Int) (bp bc bv vF : Nat) (σ : State F)
    (ok : (Ctx.mk ofRat i j outT bT e d σ.heap σ.tensors ta bp bc bv).OK)
    (init : InitC (Ctx.mk ofRat i j outT bT e d σ.heap σ.tensors ta bp bc bv) atr btr tb m vF σ)
    (f : Func F) (hgen : generateIr ofRat cap a formats (graph i j outT e) .compute = .ok f)
    (fuel : Nat) (hfuel : d.n + d.nnz + 1 ≤ fuel) :
    ∃ o, exec fuel f.body σ = .ok o ∧ o.ret = some (.int 0) ∧ o.iters = d.n + d.nnz ∧
      o.st.tensors = σ.tensors ∧ o.st.heap.length = σ.heap.length ∧
      (∀ k, k ≠ vF → o.st.heap[k]? = σ.heap[k]?) ∧
      ∃ blk0 blk, σ.heap[vF]? = some blk0 ∧ o.st.heap[vF]? = some blk ∧ blk.ty = blk0.ty ∧
        blk.owner = blk0.owner ∧ blk.live = blk0.live ∧ blk.cells.length = blk0.cells.length ∧
        (∀ q, q < d.nnz → blk.cells[q]? = some (some (.flt (ToIr.valueF ofRat (fun _ => d.vals q) e)))) ∧
        (∀ q, d.nnz ≤ q → blk.cells[q]? = blk0.cells[q]?) := by
  rw [csr_generateIr_compute_eq ofRat cap a formats i j outT bT e hout ok.hij ok.ho ok.he hf hidx hrhs] at hgen
  cases hgen
  obtain ⟨o, eo, hret, hit, hp⟩ := kernel_runsC ok formats hfmt init fuel hfuel
  exact ⟨o, eo, hret, hit, hp.tensors, hp.len, hp.other, hp.vals⟩

/-! ### A4: assemble ∘ compute = evaluate; re-running compute -/

/-- **A4 (assemble, then compute, yields what evaluate yields).** Under the hypotheses of `csr_kernel_correct`
(K3) and with different records for output and input (`ta ≠ tb`): from the same kernel-call state `σ`,
* the `assemble` function runs and returns `0` (state `oA.st`);
* the `compute` function, called next on the same memory (`nextCall σ oA.st`: the parameter environment of
  the call, heap and records as `assemble` left them), runs and returns `0` (state `oC.st`) WITHOUT allocating
  (`oC.st.heap.length = oA.st.heap.length`) and WITHOUT touching any tensor record
  (`oC.st.tensors = oA.st.tensors`);
* the `evaluate` function runs from `σ` and returns `0` (state `oE.st`);
and the output record after assemble+compute (slot 1 `pC`, `cC`, `vals` `vC`) and after evaluate (`pE`, `cE`,
`vE`) describe the same tensor: the `pos` blocks are EQUAL (the `n + 1` positions of `B`), the `crd` blocks are
EQUAL (`B`'s `nnz` columns), and the `vals` blocks are live output `float` blocks of the same length `nnz + 1`
whose first `nnz` cells are equal, namely `valueF ofRat (B ↦ vals q) e`. (The last cell is scratch in both;
block ids are not compared.) -/
theorem csr_assemble_compute_eq_evaluate (ofRat : Rat → F) (cap : Option Int) (a : Alg.DAssign)
    (formats : Formats) (i j : String) (outT bT : TensorId) (e : IdExpr)
    (hout : tensorId 0 a.tname formats a.tidx = some outT) (hf : dsFormats formats = true)
    (hidx : a.tidx = [i, j]) (hrhs : DenseN.rhsIdx [i, j] a.rhs = true)
    (hfmt : formats.map (·.1) = [outT.name, bT.name])
    (hk0 : 1 ≤ capVal cap) (hk1 : capVal cap < 2147483648)
    (d : CData F) (ta tb : Nat) (hab : ta ≠ tb) (atr btr : TensorRec F) (m : Int) (bp bc bv : Nat)
    (σ : State F)
    (ok : (Ctx.mk ofRat i j outT bT e d σ.heap σ.tensors ta bp bc bv).OK)
    (init : Init (Ctx.mk ofRat i j outT bT e d σ.heap σ.tensors ta bp bc bv) atr btr tb m σ)
    (fA fC fE : Func F)
    (hgenA : generateIr ofRat cap a formats (graph i j outT e) .assemble = .ok fA)
    (hgenC : generateIr ofRat cap a formats (graph i j outT e) .compute = .ok fC)
    (hgenE : generateIr ofRat cap a formats (graph i j outT e) .evaluate = .ok fE)
    (fuel : Nat) (hfuel : d.n + d.nnz + 1 ≤ fuel) :
    ∃ oA oC oE,
      exec fuel fA.body σ = .ok oA ∧ oA.ret = some (.int 0) ∧
      exec fuel fC.body (nextCall σ oA.st) = .ok oC ∧ oC.ret = some (.int 0) ∧
      oC.st.heap.length = oA.st.heap.length ∧ oC.st.tensors = oA.st.tensors ∧
      exec fuel fE.body σ = .ok oE ∧ oE.ret = some (.int 0) ∧
      ∃ trC trE pC cC vC pE cE vE blkC blkE,
        oC.st.tensors[ta]? = some trC ∧ oE.st.tensors[ta]? = some trE ∧
        trC.slots = atr.slots.set 1 (some (.ptr pC 0, .ptr cC 0)) ∧ trC.vals = .ptr vC 0 ∧
        trE.slots = atr.slots.set 1 (some (.ptr pE 0, .ptr cE 0)) ∧ trE.vals = .ptr vE 0 ∧
        trC.owner = trE.owner ∧ trC.order = trE.order ∧ trC.dimsBlk = trE.dimsBlk ∧
        oC.st.heap[pC]? =
          some ⟨.int, (List.range (d.n + 1)).map (fun r => some (.int (d.pos r))), .output, true⟩ ∧
        oC.st.heap[pC]? = oE.st.heap[pE]? ∧
        oC.st.heap[cC]? = some ⟨.int, (List.range d.nnz).map (fun q => some (.int (d.crd q))), .output, true⟩ ∧
        oC.st.heap[cC]? = oE.st.heap[cE]? ∧
        oC.st.heap[vC]? = some blkC ∧ oE.st.heap[vE]? = some blkE ∧
        blkC.ty = blkE.ty ∧ blkC.owner = blkE.owner ∧ blkC.live = blkE.live ∧
        blkC.cells.length = d.nnz + 1 ∧ blkE.cells.length = d.nnz + 1 ∧
        (∀ q, q < d.nnz → blkC.cells[q]? = blkE.cells[q]?) ∧
        (∀ q, q < d.nnz → blkC.cells[q]? = some (some (.flt (ToIr.valueF ofRat (fun _ => d.vals q) e)))) ∧
        (∀ k, k ≠ ta → oC.st.tensors[k]? = σ.tensors[k]?) ∧
        (∀ k, k < σ.heap.length → oC.st.heap[k]? = σ.heap[k]?) := by
  -- assemble
  obtain ⟨oA, eA, rA, _, hpA⟩ : ∃ o, exec fuel fA.body σ = .ok o ∧ o.ret = some (.int 0) ∧
      o.iters = d.n + d.nnz ∧
      KernelPostA (Ctx.mk ofRat i j outT bT e d σ.heap σ.tensors ta bp bc bv) atr o.st := by
    rw [csr_generateIr_assemble_eq ofRat cap a formats i j outT bT e hout ok.hij ok.ho ok.he hf hidx hrhs]
      at hgenA
    cases hgenA
    exact kernel_runsA ok cap formats hfmt hk0 hk1 init fuel hfuel
  obtain ⟨okC, trA, p1, c1, v, vblkA, h1, h2, h3, h4, h5, h6, h7, h8, h9, h10, h11, h12, h13, h14, h15, initC⟩ :=
    initC_after_assemble ok init hab hpA
  have hv8 : σ.heap.length ≤ v := h8 v (by simp)
  have hp8 : σ.heap.length ≤ p1 := h8 p1 (by simp)
  have hc8 : σ.heap.length ≤ c1 := h8 c1 (by simp)
  simp only [List.nodup_cons, List.mem_cons, List.not_mem_nil, or_false, not_or, List.nodup_nil, and_true,
    not_false_eq_true] at h7
  obtain ⟨⟨hpc, hpv⟩, hcv⟩ := h7
  -- compute
  obtain ⟨oC, eC, rC, _, htC, hlC, hoC, blk0, blkC, hb0, hbC, q1, q2, q3, q4, q5, _⟩ :=
    csr_compute_correct ofRat cap a formats i j outT bT e hout hf hidx hrhs hfmt d ta tb trA btr m bp bc bv v
      (nextCall σ oA.st) okC initC fC hgenC fuel hfuel
  have hb0' : oA.st.heap[v]? = some blk0 := hb0
  rw [h11] at hb0'; cases hb0'
  -- evaluate
  obtain ⟨oE, eE, rE, _, ⟨trE, pE, cE, vE, vblkE, g1, g2, g3, g4, g5, g6, _, _, g9, g10, g11, g12, g13, g14, g15,
    g16⟩, _⟩ :=
    csr_kernel_correct ofRat cap a formats i j outT bT e hout hf hidx hrhs hfmt hk0 hk1 d ta tb atr btr m bp bc
      bv σ ok init fE hgenE fuel hfuel
  have hposC : oC.st.heap[p1]? =
      some ⟨.int, (List.range (d.n + 1)).map (fun r => some (.int (d.pos r))), .output, true⟩ := by
    rw [hoC p1 hpv]; exact h9
  have hcrdC : oC.st.heap[c1]? =
      some ⟨.int, (List.range d.nnz).map (fun q => some (.int (d.crd q))), .output, true⟩ := by
    rw [hoC c1 hcv]; exact h10
  refine ⟨oA, oC, oE, eA, rA, eC, rC, hlC, htC, eE, rE, trA, trE, p1, c1, v, pE, cE, vE, blkC, vblkE,
    by rw [htC]; exact h1, g1, h5, h6, g5, g6, by rw [h2, g2], by rw [h3, g3], by rw [h4, g4],
    hposC, by rw [hposC, g9], hcrdC, by rw [hcrdC, g10], hbC, g11, by rw [q1, h14, g14],
    by rw [q2, h13, g13], by rw [q3, h12, g12], by rw [q4, h15], g15, ?_, q5, ?_, ?_⟩
  · intro q hq
    rw [q5 q hq, g16 q hq]
  · intro k hk
    rw [htC]
    exact hpA.otherRecs k hk
  · intro k hk
    rw [hoC k (by omega)]
    exact hpA.heap k hk

/-- **A4, re-running `compute` with new input values.** Let `σ` be a state from which `compute` may be called
(`InitC`, e.g. the state after `assemble`), with input values `d.vals`; run `compute` (→ `o1.st`). Let `σ2` be
ANY state in which the next call may start after the caller has overwritten the input's VALUES: the parameter
environment of `σ`, the tensor records of `o1.st`, a heap of the same length that agrees with `o1.st`'s
everywhere except at `B`'s `vals` block `bv`, which is now some live `float` block whose first `nnz` cells hold
`vals'` (same structure `pos`/`crd`; every sub-result of `e` finite). Then `compute` runs again from `σ2`,
returns `0`, and in its final state `o2.st`
* all tensor records are still those of the FIRST initial state `σ` and the heap still has the length of
  `σ`'s heap: neither call allocated or touched the structure;
* every block other than the output's `vals` block `vF` and `B`'s `vals` block is as in `σ` (in particular the
  output's `pos`/`crd` blocks);
* block `vF` — the same block — has its original type, owner, liveness and length and now holds the NEW values
  `valueF ofRat (B ↦ vals' q) e` in its first `nnz` cells. -/
theorem csr_compute_rerun (ofRat : Rat → F) (cap : Option Int) (a : Alg.DAssign) (formats : Formats)
    (i j : String) (outT bT : TensorId) (e : IdExpr)
    (hout : tensorId 0 a.tname formats a.tidx = some outT) (hf : dsFormats formats = true)
    (hidx : a.tidx = [i, j]) (hrhs : DenseN.rhsIdx [i, j] a.rhs = true)
    (hfmt : formats.map (·.1) = [outT.name, bT.name])
    (d : CData F) (vals' : Nat → F) (ta tb : Nat) (atr btr : TensorRec F) (m : Int) (bp bc bv vF : Nat)
    (σ : State F)
    (ok : (Ctx.mk ofRat i j outT bT e d σ.heap σ.tensors ta bp bc bv).OK)
    (init : InitC (Ctx.mk ofRat i j outT bT e d σ.heap σ.tensors ta bp bc bv) atr btr tb m vF σ)
    (hfin' : ∀ q, q < d.nnz → ToIr.AllFinite ofRat (fun _ => vals' q) e)
    (f : Func F) (hgen : generateIr ofRat cap a formats (graph i j outT e) .compute = .ok f)
    (fuel : Nat) (hfuel : d.n + d.nnz + 1 ≤ fuel) :
    ∃ o1, exec fuel f.body σ = .ok o1 ∧ o1.ret = some (.int 0) ∧
      o1.st.tensors = σ.tensors ∧ o1.st.heap.length = σ.heap.length ∧
      ∀ σ2 : State F, σ2.vars = σ.vars → σ2.tensors = o1.st.tensors →
        σ2.heap.length = o1.st.heap.length → (∀ k, k ≠ bv → σ2.heap[k]? = o1.st.heap[k]?) →
        (∃ blk, σ2.heap[bv]? = some blk ∧ blk.live = true ∧ blk.ty = .float ∧
          ∀ q, q < d.nnz → blk.cells[q]? = some (some (.flt (vals' q)))) →
        ∃ o2, exec fuel f.body σ2 = .ok o2 ∧ o2.ret = some (.int 0) ∧ o2.iters = d.n + d.nnz ∧
          o2.st.tensors = σ.tensors ∧ o2.st.heap.length = σ.heap.length ∧
          (∀ k, k ≠ vF → k ≠ bv → o2.st.heap[k]? = σ.heap[k]?) ∧
          ∃ blk0 blk, σ.heap[vF]? = some blk0 ∧ o2.st.heap[vF]? = some blk ∧ blk.ty = blk0.ty ∧
            blk.owner = blk0.owner ∧ blk.live = blk0.live ∧ blk.cells.length = blk0.cells.length ∧
            (∀ q, q < d.nnz → blk.cells[q]? = some (some (.flt (ToIr.valueF ofRat (fun _ => vals' q) e)))) ∧
            (∀ q, d.nnz ≤ q → blk.cells[q]? = blk0.cells[q]?) := by
  obtain ⟨o1, e1, r1, _, ht1, hl1, ho1, blk0, blk1, hb0, hb1, a1, a2, a3, a4, _, a6⟩ :=
    csr_compute_correct ofRat cap a formats i j outT bT e hout hf hidx hrhs hfmt d ta tb atr btr m bp bc bv vF σ
      ok init f hgen fuel hfuel
  refine ⟨o1, e1, r1, ht1, hl1, ?_⟩
  intro σ2 hv ht hl hh hval
  obtain ⟨d1, d2, d3, d4⟩ := init.int_blocks_ne ok
  obtain ⟨ablk, hab, halive, haown, haty, halen⟩ := init.vblk
  rw [hab] at hb0; cases hb0
  have hvne := init.vne
  have hvF2 : σ2.heap[vF]? = some blk1 := by rw [hh vF hvne.2.2]; exact hb1
  have ok2 : (Ctx.mk ofRat i j outT bT e ⟨d.n, d.nnz, d.pos, d.crd, vals'⟩ σ2.heap σ2.tensors ta bp bc bv).OK :=
    ok.next vals' σ2 (by
        show σ2.heap[bp]? = σ.heap[bp]?
        rw [hh _ d3, ho1 _ (Ne.symm hvne.1)])
      (by
        show σ2.heap[bc]? = σ.heap[bc]?
        rw [hh _ d4, ho1 _ (Ne.symm hvne.2.1)])
      hval hfin'
  have init2 : InitC (Ctx.mk ofRat i j outT bT e ⟨d.n, d.nnz, d.pos, d.crd, vals'⟩ σ2.heap σ2.tensors ta bp bc bv)
      atr btr tb m vF σ2 :=
    init.transport vals' hv (by rw [ht, ht1]) (by rw [hh _ d2, ho1 _ d1])
      ⟨blk1, hvF2, by rw [a3]; exact halive, by rw [a2]; exact haown, by rw [a1]; exact haty,
        by rw [a4]; exact halen⟩
  obtain ⟨o2, e2, r2, it2, ht2, hl2, ho2, blk0', blk2, hb0', hb2, b1, b2, b3, b4, b5, b6⟩ :=
    csr_compute_correct ofRat cap a formats i j outT bT e hout hf hidx hrhs hfmt
      ⟨d.n, d.nnz, d.pos, d.crd, vals'⟩ ta tb atr btr m bp bc bv vF σ2 ok2 init2 f hgen fuel hfuel
  rw [hvF2] at hb0'; cases hb0'
  refine ⟨o2, e2, r2, it2, by rw [ht2, ht, ht1], by rw [hl2, hl, hl1], ?_, blk0, blk2, hab, hb2,
    by rw [b1, a1], by rw [b2, a2], by rw [b3, a3], by rw [b4, a4], b5, ?_⟩
  · intro k hk1 hk2
    rw [ho2 k hk1, hh k hk2, ho1 k hk1]
  · intro q hq
    rw [b6 q hq, a6 q hq]

/-! ### non-vacuity -/

/-- **A1 is not vacuous**: on the closed instance of `C01Csr.lean` (`a(i,j) = 2 * B(i,j)`, both CSR, initial
capacity 1) every hypothesis holds, and `generateIr` produces the two kernels. -/
example : generateIr exOfRat (some 1) exAssign exFormats (graph "i" "j" exOut exE) .assemble =
      .ok (kernelA (some 1) exFormats "i" "j" exOut exB) ∧
    generateIr exOfRat (some 1) exAssign exFormats (graph "i" "j" exOut exE) .compute =
      .ok (kernelC exOfRat exFormats "i" "j" exOut exB exE) :=
  ⟨csr_generateIr_assemble_eq exOfRat (some 1) exAssign exFormats "i" "j" exOut exB exE (by decide)
      (by decide) (by decide) (by decide) (by decide) rfl (by decide),
   csr_generateIr_compute_eq exOfRat (some 1) exAssign exFormats "i" "j" exOut exB exE (by decide)
      (by decide) (by decide) (by decide) (by decide) rfl (by decide)⟩

/-- **A2 is not vacuous** (over `Int`, initial capacity 1): every hypothesis holds on the instance, and the
assembling kernel returns `0` after `3 + 3 = 6` iterations and leaves `pos = [0, 2, 2, 3]`, `crd = [0, 2, 1]`
and a `vals` block of `4` cells in fresh blocks the output record points to. -/
example : ∃ f o, generateIr exOfRat (some 1) exAssign exFormats (graph "i" "j" exOut exE) .assemble = .ok f ∧
    exec 7 f.body (exStateOf (F := Int) id) = .ok o ∧ o.ret = some (.int 0) ∧ o.iters = 6 ∧
    ∃ tr' p1 c1 v vblk, o.st.tensors[0]? = some tr' ∧
      tr'.slots = [none, some (.ptr p1 0, .ptr c1 0)] ∧ tr'.vals = .ptr v 0 ∧
      o.st.heap[p1]? = some ⟨.int, [some (.int 0), some (.int 2), some (.int 2), some (.int 3)], .output, true⟩ ∧
      o.st.heap[c1]? = some ⟨.int, [some (.int 0), some (.int 2), some (.int 1)], .output, true⟩ ∧
      o.st.heap[v]? = some vblk ∧ vblk.live = true ∧ vblk.cells.length = 4 := by
  have hgen := csr_generateIr_assemble_eq exOfRat (some 1) exAssign exFormats "i" "j" exOut exB exE (by decide)
    (by decide) (by decide) (by decide) (by decide) rfl (by decide)
  obtain ⟨o, eo, hret, hit, ⟨tr', p1, c1, v, vblk, h1, _, _, _, h5, h6, _, _, h9, h10, h11, h12, _, _, h15⟩,
    _⟩ :=
    csr_assemble_correct exOfRat (some 1) exAssign exFormats "i" "j" exOut exB exE (by decide) (by decide) rfl
      (by decide) rfl (by decide) (by decide) (exD (F := Int) id) 0 1 _ _ 3 2 3 4 (exStateOf (F := Int) id)
      (exOK exOfRat id (fun q _ => ToIr.Ex.allFinite_int _ _ _)) (exInitOf exOfRat id) _ hgen 7 (by decide)
  exact ⟨_, o, hgen, eo, hret, hit, tr', p1, c1, v, vblk, h1, h5, h6, h9, h10, h11, h12, h15⟩

/-- **A3 / A4 are not vacuous** (over `Int`, initial capacity 1): on the instance every hypothesis of
`csr_assemble_compute_eq_evaluate` holds (in particular the state `assemble` leaves satisfies `InitC`, the
hypothesis of `csr_compute_correct`); `assemble` and then `compute` return `0`, `compute` allocates nothing, and
the output record points to `pos = [0, 2, 2, 3]`, `crd = [0, 2, 1]`, `vals = [2, 4, 6, ·]`. -/
example : ∃ fA fC oA oC,
    generateIr exOfRat (some 1) exAssign exFormats (graph "i" "j" exOut exE) .assemble = .ok fA ∧
    generateIr exOfRat (some 1) exAssign exFormats (graph "i" "j" exOut exE) .compute = .ok fC ∧
    exec 7 fA.body (exStateOf (F := Int) id) = .ok oA ∧ oA.ret = some (.int 0) ∧
    exec 7 fC.body (nextCall (exStateOf (F := Int) id) oA.st) = .ok oC ∧ oC.ret = some (.int 0) ∧
    oC.st.heap.length = oA.st.heap.length ∧ oC.st.tensors = oA.st.tensors ∧
    ∃ trC pC cC vC blkC, oC.st.tensors[0]? = some trC ∧
      trC.slots = [none, some (.ptr pC 0, .ptr cC 0)] ∧ trC.vals = .ptr vC 0 ∧
      oC.st.heap[pC]? = some ⟨.int, [some (.int 0), some (.int 2), some (.int 2), some (.int 3)], .output, true⟩ ∧
      oC.st.heap[cC]? = some ⟨.int, [some (.int 0), some (.int 2), some (.int 1)], .output, true⟩ ∧
      oC.st.heap[vC]? = some blkC ∧ blkC.cells.length = 4 ∧
      blkC.cells[0]? = some (some (.flt 2)) ∧ blkC.cells[1]? = some (some (.flt 4)) ∧
      blkC.cells[2]? = some (some (.flt 6)) := by
  have hgenA := csr_generateIr_assemble_eq exOfRat (some 1) exAssign exFormats "i" "j" exOut exB exE (by decide)
    (by decide) (by decide) (by decide) (by decide) rfl (by decide)
  have hgenC := csr_generateIr_compute_eq exOfRat (some 1) exAssign exFormats "i" "j" exOut exB exE (by decide)
    (by decide) (by decide) (by decide) (by decide) rfl (by decide)
  have hgenE := csr_generateIr_eq exOfRat (some 1) exAssign exFormats "i" "j" exOut exB exE (by decide)
    (by decide) (by decide) (by decide) (by decide) rfl (by decide)
  obtain ⟨oA, oC, oE, eA, rA, eC, rC, hl, ht, _, _, trC, trE, pC, cC, vC, pE, cE, vE, blkC, blkE, h1, _, h3, h4,
    _, _, _, _, _, h10, _, h12, _, h14, _, _, _, _, h19, _, _, h22, _, _⟩ :=
    csr_assemble_compute_eq_evaluate exOfRat (some 1) exAssign exFormats "i" "j" exOut exB exE (by decide)
      (by decide) rfl (by decide) rfl (by decide) (by decide) (exD (F := Int) id) 0 1 (by decide) _ _ 3 2 3 4
      (exStateOf (F := Int) id) (exOK exOfRat id (fun q _ => ToIr.Ex.allFinite_int _ _ _)) (exInitOf exOfRat id)
      _ _ _ hgenA hgenC hgenE 7 (by decide)
  exact ⟨_, _, oA, oC, hgenA, hgenC, eA, rA, eC, rC, hl, ht, trC, pC, cC, vC, blkC, h1, h3, h4, h10, h12, h14,
    h19, h22 0 (by decide), h22 1 (by decide), h22 2 (by decide)⟩

/-- **`csr_compute_rerun` is not vacuous**: on the instance, from the state `σ` that `assemble` leaves, `compute`
runs (→ `o1`); then the caller overwrites `B`'s values `[1, 2, 3]` by `[10, 20, 30]` (state `σ2`: block 4 of the
heap replaced) and `compute` runs again, without allocation, and leaves `[20, 40, 60]` in the same `vals` block. -/
example : ∃ (f : Func Int) (σ σ2 : State Int) (vF : Nat) (o1 o2 : Out Int) (blk : Block Int),
    generateIr exOfRat (some 1) exAssign exFormats (graph "i" "j" exOut exE) .compute = .ok f ∧
    exec 7 f.body σ = .ok o1 ∧ σ2.vars = σ.vars ∧ σ2.tensors = o1.st.tensors ∧
    σ2.heap = o1.st.heap.set 4 ⟨.float, [some (.flt 10), some (.flt 20), some (.flt 30)], .input, true⟩ ∧
    exec 7 f.body σ2 = .ok o2 ∧ o2.ret = some (.int 0) ∧ o2.st.heap.length = σ.heap.length ∧
    o2.st.tensors = σ.tensors ∧ o2.st.heap[vF]? = some blk ∧
    blk.cells[0]? = some (some (.flt 20)) ∧ blk.cells[1]? = some (some (.flt 40)) ∧
    blk.cells[2]? = some (some (.flt 60)) := by
  have hgenC := csr_generateIr_compute_eq exOfRat (some 1) exAssign exFormats "i" "j" exOut exB exE (by decide)
    (by decide) (by decide) (by decide) (by decide) rfl (by decide)
  have okE := exOK exOfRat id (fun q _ => ToIr.Ex.allFinite_int _ _ _)
  obtain ⟨oA, eA, rA, itA, hpA⟩ := kernel_runsA okE (some 1) exFormats rfl (by decide) (by decide)
    (exInitOf exOfRat id) 7 (by decide)
  obtain ⟨okC, trA, p1, c1, v, vblkA, h1, h2, h3, h4, h5, h6, h7, h8, h9, h10, h11, h12, h13, h14, h15, initC⟩ :=
    initC_after_assemble okE (exInitOf exOfRat id) (by decide) hpA
  obtain ⟨o1, e1, r1, ht1, hl1, H⟩ :=
    csr_compute_rerun exOfRat (some 1) exAssign exFormats "i" "j" exOut exB exE (by decide) (by decide) rfl
      (by decide) rfl (exD (F := Int) id) (fun q => [10, 20, 30].getD q 0) 0 1 trA _ 3 2 3 4 v
      (nextCall (exStateOf (F := Int) id) oA.st) okC initC (fun q _ => ToIr.Ex.allFinite_int _ _ _) _ hgenC 7
      (by decide)
  have h4A : oA.st.heap[4]? = (exStateOf (F := Int) id).heap[4]? := hpA.heap 4 (by decide)
  have hlen : 4 < o1.st.heap.length := by
    rw [hl1]
    show 4 < oA.st.heap.length
    exact lt_length_of_getElem? (h4A.trans rfl)
  obtain ⟨o2, e2, r2, _, ht2, hl2, _, blk0, blk, _, hb, _, _, _, _, hv, _⟩ :=
    H ⟨(exStateOf (F := Int) id).vars,
        o1.st.heap.set 4 ⟨.float, [some (.flt 10), some (.flt 20), some (.flt 30)], .input, true⟩,
        o1.st.tensors⟩ rfl rfl (by simp) (fun k hk => List.getElem?_set_ne (Ne.symm hk))
      ⟨_, List.getElem?_set_self hlen, rfl, rfl, by
        intro q hq
        have : q = 0 ∨ q = 1 ∨ q = 2 := by
          have : q < 3 := hq
          omega
        rcases this with rfl | rfl | rfl <;> rfl⟩
  exact ⟨_, nextCall (exStateOf (F := Int) id) oA.st,
    ⟨(exStateOf (F := Int) id).vars,
      o1.st.heap.set 4 ⟨.float, [some (.flt 10), some (.flt 20), some (.flt 30)], .input, true⟩,
      o1.st.tensors⟩, v, o1, o2, blk, hgenC, e1, rfl, rfl, rfl, e2, r2, hl2, ht2, hb,
    hv 0 (by decide), hv 1 (by decide), hv 2 (by decide)⟩

end TV.Csr

/-!
# C04 for the sparse matrix copy / scale kernels (class `Sparse2`, `ss → ss`)

Class of `Props/C01Sparse2.lean`: `a(i,j) = e`, `a` a doubly compressed matrix, `e` mentioning exactly one doubly
compressed matrix `b(i,j)` with sparse loops (`Sparse2.isSS`, `Sparse2.isExpr`, graph `Sparse2.graph i j outT e`).

* **A1** `sparse2_generateIr_assemble_eq`, `sparse2_generateIr_compute_eq` — what `generateIr` emits for the
  kinds `.assemble` / `.compute`, written out (`Sparse2.kernelA`, `Sparse2.kernelC`).
* **A2** `sparse2_assemble_correct` — the assembling kernel from a kernel-call state (`Sparse2.Init`), any
  initial capacity `≥ 1`: returns `0` after `R + nnz` iterations, leaves exactly the structure `evaluate` leaves
  (`pos0`, `crd0`, `pos1`, `crd1`, exact sizes, empty stored rows dropped) and a `vals` block of exactly `nnz + 1`
  cells (contents unspecified — the kernel never stores into it), inputs untouched.
* **A3** `sparse2_compute_correct` — the computing kernel from ANY kernel-call state whose output record owns a
  live `vals` block of at least `nnz` cells (`Sparse2.InitC`): returns `0`, NO allocation (heap length unchanged),
  ALL tensor records unchanged, every block other than `vals` unchanged (in particular the `pos`/`crd` blocks of
  both levels), `vals[q] = ⟦e⟧` at `b`'s `q`-th entry for `q < nnz`, cells `≥ nnz` unchanged.
* `sparse2_compute_rerun` — after changing the input VALUES (same structure) a second compute call yields the
  new values in the same blocks, without allocation.
* **A4** `sparse2_assemble_compute_eq_evaluate` — assemble, then compute in the next call (`AsmCmp.nextCall`),
  gives the same `pos0`/`crd0`/`pos1`/`crd1` blocks and a `vals` block of the same shape with the same first `nnz`
  cells as `evaluate` (`sparse2_kernel_correct`) from the same initial state.
* non-vacuity: the closed instance of `C01Sparse2.lean` (`a(i,j) = 2 * b(i,j)`, capacity 1).

Vocabulary: `Lemmas/AsmCmp2Sparse2Model.lean` (emitted kernels), `AsmCmp2Sparse2Post.lean` (`KernelPostA`, `InitC`,
`KernelPostC`), `AsmCmp2Sparse2Compose.lean` (`Ctx.next`, `initC_after_assemble`, `InitC.transport`).
-/
namespace TV.Sparse2
open TV.IR TV.Gen TV.Graph TV.Growth TV.Merge
open TV.Sparse1 (capVal)
open TV.AsmCmp (nextCall)

variable {F : Type} [FloatOps F]

/-! ### A1: what the pass emits -/

/-- **The generated `assemble` kernel.** Under the hypotheses of `sparse2_generateIr_eq`,
`generateIr … .assemble` succeeds and returns exactly `Sparse2.kernelA`: the `evaluate` kernel (same dimension
extraction, unpacking, output initialisation `Sparse2.outInit` with initial capacity `cap`, same two nested
merge loops with the pos allocation / crd assembly / pos assembly of BOTH levels, same cleanup
`Sparse2.cleanupLines`) in which the terminal block is only `written_a_0 = true; written_a_1 = true;` (no store
into `vals`; the right-hand side `e` does not occur in the kernel at all). -/
theorem sparse2_generateIr_assemble_eq (ofRat : Rat → F) (cap : Option Int) (a : Alg.DAssign)
    (formats : Formats) (i j : String) (outT bT : TensorId) (e : IdExpr)
    (hout : tensorId 0 a.tname formats a.tidx = some outT)
    (hij : i ≠ j) (ho : isSS i j outT = true) (he : isExpr i j bT e = true) (hf : ssFormats formats = true)
    (hidx : a.tidx = [i, j]) (hrhs : DenseN.rhsIdx [i, j] a.rhs = true) :
    generateIr ofRat cap a formats (graph i j outT e) .assemble =
      .ok (kernelA cap formats i j outT bT) :=
  generateIr_eqA ofRat cap a formats i j outT bT e hout (Dense1.tensorId_name hout) hij ho he hf
    (indexDimensions_eq a i j hij hidx hrhs)

/-- **The generated `compute` kernel.** Under the same hypotheses `generateIr … .compute` succeeds and returns
exactly `Sparse2.kernelC`: extract `i_dim`, `j_dim`, unpack `pos`/`crd` of both levels and `vals` of every
tensor, `int p_a_0 = 0; int p_a_1 = 0;`, then `int p_b_0 = b_0_pos[0]; int p_b_0_end = b_0_pos[0 + 1]; while (true
&& p_b_0 < p_b_0_end) { int i_b_0 = b_0_crd[p_b_0]; int i = i_b_0; if (true && i_b_0 == i) { bool written_a_0 =
false; { int p_b_1 = b_1_pos[p_b_0]; int p_b_1_end = b_1_pos[p_b_0 + 1]; while (true && p_b_1 < p_b_1_end) { int
i_b_1 = b_1_crd[p_b_1]; int j = i_b_1; if (true && i_b_1 == j) { bool written_a_1 = false; { written_a_0 = true;
written_a_1 = true; a_vals[p_a_1] = <e>; } if (written_a_1) { p_a_1 = p_a_1 + 1; } } p_b_1 += (i_b_1 == j); } }
if (written_a_0) { p_a_0 = p_a_0 + 1; } } p_b_0 += (i_b_0 == i); }`, an EMPTY "Assembling output tensor" block,
`return 0` — no `malloc`/`realloc`, no store into `pos`, `crd` (of either level) or the record; the initial
capacity `cap` does not occur. -/
theorem sparse2_generateIr_compute_eq (ofRat : Rat → F) (cap : Option Int) (a : Alg.DAssign)
    (formats : Formats) (i j : String) (outT bT : TensorId) (e : IdExpr)
    (hout : tensorId 0 a.tname formats a.tidx = some outT)
    (hij : i ≠ j) (ho : isSS i j outT = true) (he : isExpr i j bT e = true) (hf : ssFormats formats = true)
    (hidx : a.tidx = [i, j]) (hrhs : DenseN.rhsIdx [i, j] a.rhs = true) :
    generateIr ofRat cap a formats (graph i j outT e) .compute =
      .ok (kernelC ofRat formats i j outT bT e) :=
  generateIr_eqC ofRat cap a formats i j outT bT e hout (Dense1.tensorId_name hout) hij ho he hf
    (indexDimensions_eq a i j hij hidx hrhs)

/-! ### A2: the assembling kernel -/

/-- **A2 (the generated `assemble` kernel is correct).** Under the hypotheses of `sparse2_kernel_correct` (static
hypotheses `Ctx.OK`, any initial capacity `1 ≤ capVal cap < 2^31`, any kernel-call state `σ` (`Init`)), the
function `generateIr … .assemble` produces runs with any fuel `≥ R + nnz + 2` WITHOUT ERROR, **returns `0`** after
EXACTLY `R + nnz` loop iterations, and in the final state
* the output record (still output-owned, same order and dimensions block) has slot 0 = (`pos0`, `crd0`),
  slot 1 = (`pos1`, `crd1`) and `vals` = the base addresses of five different FRESH blocks, live and
  output-owned;
* `pos0 = [0, R']`, `crd0`, `pos1`, `crd1` are exactly the structure `evaluate` produces
  (`sparse2_kernel_correct`: empty stored rows dropped, exact sizes);
* the `vals` block is a `float` block of exactly `nnz + 1` cells — the size the `evaluate` kernel leaves; its
  CONTENTS ARE UNSPECIFIED: the kernel allocates, doubles and `realloc`s it, but never stores into it;
* every other tensor record and EVERY block of the initial heap (all inputs) is unchanged. -/
theorem sparse2_assemble_correct (ofRat : Rat → F) (cap : Option Int) (a : Alg.DAssign) (formats : Formats)
    (i j : String) (outT bT : TensorId) (e : IdExpr)
    (hout : tensorId 0 a.tname formats a.tidx = some outT) (hf : ssFormats formats = true)
    (hidx : a.tidx = [i, j]) (hrhs : DenseN.rhsIdx [i, j] a.rhs = true)
    (hfmt : formats.map (·.1) = [outT.name, bT.name])
    (hk0 : 1 ≤ capVal cap) (hk1 : capVal cap < 2147483648)
    (d : BData F) (ta tb : Nat) (atr btr : TensorRec F) (n m : Int) (bp0 bc0 bp1 bc1 bv : Nat) (σ : State F)
    (ok : (Ctx.mk ofRat i j outT bT e d σ.heap σ.tensors ta bp0 bc0 bp1 bc1 bv).OK)
    (init : Init (Ctx.mk ofRat i j outT bT e d σ.heap σ.tensors ta bp0 bc0 bp1 bc1 bv) atr btr tb n m σ)
    (f : Func F) (hgen : generateIr ofRat cap a formats (graph i j outT e) .assemble = .ok f)
    (fuel : Nat) (hfuel : d.R + d.nnz + 2 ≤ fuel) :
    ∃ o, exec fuel f.body σ = .ok o ∧ o.ret = some (.int 0) ∧ o.iters = d.R + d.nnz ∧
      (∃ tr' p0 c0 p1 c1 v vblk, o.st.tensors[ta]? = some tr' ∧ tr'.owner = .output ∧
        tr'.order = atr.order ∧ tr'.dimsBlk = atr.dimsBlk ∧
        tr'.slots = (atr.slots.set 0 (some (.ptr p0 0, .ptr c0 0))).set 1 (some (.ptr p1 0, .ptr c1 0)) ∧
        tr'.vals = .ptr v 0 ∧
        [p0, c0, p1, c1, v].Nodup ∧ (∀ x ∈ [p0, c0, p1, c1, v], σ.heap.length ≤ x) ∧
        o.st.heap[p0]? = some ⟨.int, [some (.int 0), some (.int ((d.kept d.R).length : Int))], .output, true⟩ ∧
        o.st.heap[c0]? = some ⟨.int, (d.outCrd0 d.R).map (fun z => some (.int z)), .output, true⟩ ∧
        o.st.heap[p1]? = some ⟨.int, (d.outPos1 d.R).map (fun z => some (.int z)), .output, true⟩ ∧
        o.st.heap[c1]? = some ⟨.int, (List.range d.nnz).map (fun q => some (.int (d.crd1 q))), .output, true⟩ ∧
        o.st.heap[v]? = some vblk ∧ vblk.live = true ∧ vblk.owner = .output ∧ vblk.ty = .float ∧
        vblk.cells.length = d.nnz + 1) ∧
      (∀ k, k ≠ ta → o.st.tensors[k]? = σ.tensors[k]?) ∧
      o.st.tensors.length = σ.tensors.length ∧
      (∀ k, k < σ.heap.length → o.st.heap[k]? = σ.heap[k]?) := by
  rw [sparse2_generateIr_assemble_eq ofRat cap a formats i j outT bT e hout ok.hij ok.ho ok.he hf hidx hrhs]
    at hgen
  cases hgen
  obtain ⟨o, eo, hret, hit, hp⟩ := kernel_runsA ok cap formats hfmt hk0 hk1 init fuel hfuel
  exact ⟨o, eo, hret, hit, hp.outRec, hp.otherRecs, hp.tlen, hp.heap⟩

/-! ### A3: the computing kernel -/

/-- **A3 (the generated `compute` kernel is correct, from ANY suitable state).** Under the static hypotheses
`Ctx.OK`, let `σ` be a kernel-call state (`InitC`: the variables are exactly the two tensor parameters; the
output record `ta` = `atr` is output-owned, its slots 0 and 1 hold pointers or `NULL`s — they are never
dereferenced —, and `atr.vals` is the base address of a live, output-owned `float` block `vF` of AT LEAST `r ≥
nnz` cells, different from the five blocks of `b`). This covers the state the assembling kernel leaves
(`sparse2_assemble_compute_eq_evaluate`). Then the function `generateIr … .compute` produces runs with any
fuel `≥ R + nnz + 2` WITHOUT ERROR, **returns `0`** after exactly `R + nnz` loop iterations, and
* **no allocation**: the heap has the same length;
* **the structure is untouched**: ALL tensor records are unchanged (the output record keeps its slots and
  `vals` — same block ids), and every heap block other than `vF` is unchanged (the output's `pos`/`crd`
  blocks of both levels, every input, everything else);
* **it writes only inside the value array**: block `vF` keeps type, owner, liveness and LENGTH; its cells
  `q < nnz` hold `valueF ofRat (b ↦ vals q) e`; its cells `q ≥ nnz` are unchanged. -/
theorem sparse2_compute_correct (ofRat : Rat → F) (cap : Option Int) (a : Alg.DAssign) (formats : Formats)
    (i j : String) (outT bT : TensorId) (e : IdExpr)
    (hout : tensorId 0 a.tname formats a.tidx = some outT) (hf : ssFormats formats = true)
    (hidx : a.tidx = [i, j]) (hrhs : DenseN.rhsIdx [i, j] a.rhs = true)
    (hfmt : formats.map (·.1) = [outT.name, bT.name])
    (d : BData F) (ta tb : Nat) (atr btr : TensorRec F) (n m : Int) (bp0 bc0 bp1 bc1 bv r vF : Nat)
    (σ : State F)
    (ok : (Ctx.mk ofRat i j outT bT e d σ.heap σ.tensors ta bp0 bc0 bp1 bc1 bv).OK)
    (init : InitC (Ctx.mk ofRat i j outT bT e d σ.heap σ.tensors ta bp0 bc0 bp1 bc1 bv) atr btr tb n m r vF σ)
    (hr : d.nnz ≤ r)
    (f : Func F) (hgen : generateIr ofRat cap a formats (graph i j outT e) .compute = .ok f)
    (fuel : Nat) (hfuel : d.R + d.nnz + 2 ≤ fuel) :
    ∃ o, exec fuel f.body σ = .ok o ∧ o.ret = some (.int 0) ∧ o.iters = d.R + d.nnz ∧
      o.st.tensors = σ.tensors ∧ o.st.heap.length = σ.heap.length ∧
      (∀ k, k ≠ vF → o.st.heap[k]? = σ.heap[k]?) ∧
      ∃ blk0 blk, σ.heap[vF]? = some blk0 ∧ o.st.heap[vF]? = some blk ∧ blk.ty = blk0.ty ∧
        blk.owner = blk0.owner ∧ blk.live = blk0.live ∧ blk.cells.length = blk0.cells.length ∧
        (∀ q, q < d.nnz → blk.cells[q]? = some (some (.flt (ToIr.valueF ofRat (fun _ => d.vals q) e)))) ∧
        (∀ q, d.nnz ≤ q → blk.cells[q]? = blk0.cells[q]?) := by
  rw [sparse2_generateIr_compute_eq ofRat cap a formats i j outT bT e hout ok.hij ok.ho ok.he hf hidx hrhs]
    at hgen
  cases hgen
  obtain ⟨o, eo, hret, hit, hp⟩ := kernel_runsC ok formats hfmt init hr fuel hfuel
  exact ⟨o, eo, hret, hit, hp.tensors, hp.len, hp.other, hp.vals⟩

/-! ### A4: assemble, then compute = evaluate -/

/-- **A4 (assemble; compute = evaluate).** From the same kernel-call state `σ` (`Init`, output and input in
different records), run the `assemble` kernel, then — in the next call (`AsmCmp.nextCall`: the parameters of
the first call, the memory as `assemble` left it) — the `compute` kernel; and, independently, run the `evaluate`
kernel from `σ`. All three return `0`; `compute` allocates nothing and changes no record; and the output record
after `assemble; compute` describes THE SAME matrix as after `evaluate` (`sparse2_kernel_correct`): equal
`pos0`, `crd0`, `pos1`, `crd1` blocks (with the contents listed), a `vals` block of the same type, owner,
liveness and length `nnz + 1` whose first `nnz` cells are equal, namely `valueF ofRat (b ↦ vals q) e`; every
other record and every block of the initial heap is unchanged. -/
theorem sparse2_assemble_compute_eq_evaluate (ofRat : Rat → F) (cap : Option Int) (a : Alg.DAssign)
    (formats : Formats) (i j : String) (outT bT : TensorId) (e : IdExpr)
    (hout : tensorId 0 a.tname formats a.tidx = some outT) (hf : ssFormats formats = true)
    (hidx : a.tidx = [i, j]) (hrhs : DenseN.rhsIdx [i, j] a.rhs = true)
    (hfmt : formats.map (·.1) = [outT.name, bT.name])
    (hk0 : 1 ≤ capVal cap) (hk1 : capVal cap < 2147483648)
    (d : BData F) (ta tb : Nat) (hab : ta ≠ tb) (atr btr : TensorRec F) (n m : Int)
    (bp0 bc0 bp1 bc1 bv : Nat) (σ : State F)
    (ok : (Ctx.mk ofRat i j outT bT e d σ.heap σ.tensors ta bp0 bc0 bp1 bc1 bv).OK)
    (init : Init (Ctx.mk ofRat i j outT bT e d σ.heap σ.tensors ta bp0 bc0 bp1 bc1 bv) atr btr tb n m σ)
    (fA fC fE : Func F)
    (hgenA : generateIr ofRat cap a formats (graph i j outT e) .assemble = .ok fA)
    (hgenC : generateIr ofRat cap a formats (graph i j outT e) .compute = .ok fC)
    (hgenE : generateIr ofRat cap a formats (graph i j outT e) .evaluate = .ok fE)
    (fuel : Nat) (hfuel : d.R + d.nnz + 2 ≤ fuel) :
    ∃ oA oC oE,
      exec fuel fA.body σ = .ok oA ∧ oA.ret = some (.int 0) ∧
      exec fuel fC.body (nextCall σ oA.st) = .ok oC ∧ oC.ret = some (.int 0) ∧
      oC.st.heap.length = oA.st.heap.length ∧ oC.st.tensors = oA.st.tensors ∧
      exec fuel fE.body σ = .ok oE ∧ oE.ret = some (.int 0) ∧
      ∃ trC trE p0C c0C p1C c1C vC p0E c0E p1E c1E vE blkC blkE,
        oC.st.tensors[ta]? = some trC ∧ oE.st.tensors[ta]? = some trE ∧
        trC.slots = (atr.slots.set 0 (some (.ptr p0C 0, .ptr c0C 0))).set 1 (some (.ptr p1C 0, .ptr c1C 0)) ∧
        trC.vals = .ptr vC 0 ∧
        trE.slots = (atr.slots.set 0 (some (.ptr p0E 0, .ptr c0E 0))).set 1 (some (.ptr p1E 0, .ptr c1E 0)) ∧
        trE.vals = .ptr vE 0 ∧
        trC.owner = trE.owner ∧ trC.order = trE.order ∧ trC.dimsBlk = trE.dimsBlk ∧
        oC.st.heap[p0C]? = some ⟨.int, [some (.int 0), some (.int ((d.kept d.R).length : Int))], .output, true⟩ ∧
        oC.st.heap[p0C]? = oE.st.heap[p0E]? ∧
        oC.st.heap[c0C]? = some ⟨.int, (d.outCrd0 d.R).map (fun z => some (.int z)), .output, true⟩ ∧
        oC.st.heap[c0C]? = oE.st.heap[c0E]? ∧
        oC.st.heap[p1C]? = some ⟨.int, (d.outPos1 d.R).map (fun z => some (.int z)), .output, true⟩ ∧
        oC.st.heap[p1C]? = oE.st.heap[p1E]? ∧
        oC.st.heap[c1C]? = some ⟨.int, (List.range d.nnz).map (fun q => some (.int (d.crd1 q))), .output, true⟩ ∧
        oC.st.heap[c1C]? = oE.st.heap[c1E]? ∧
        oC.st.heap[vC]? = some blkC ∧ oE.st.heap[vE]? = some blkE ∧
        blkC.ty = blkE.ty ∧ blkC.owner = blkE.owner ∧ blkC.live = blkE.live ∧
        blkC.cells.length = d.nnz + 1 ∧ blkE.cells.length = d.nnz + 1 ∧
        (∀ q, q < d.nnz → blkC.cells[q]? = blkE.cells[q]?) ∧
        (∀ q, q < d.nnz → blkC.cells[q]? = some (some (.flt (ToIr.valueF ofRat (fun _ => d.vals q) e)))) ∧
        (∀ k, k ≠ ta → oC.st.tensors[k]? = σ.tensors[k]?) ∧
        (∀ k, k < σ.heap.length → oC.st.heap[k]? = σ.heap[k]?) := by
  -- assemble
  obtain ⟨oA, eA, rA, _, hpA⟩ : ∃ o, exec fuel fA.body σ = .ok o ∧ o.ret = some (.int 0) ∧
      o.iters = d.R + d.nnz ∧
      KernelPostA (Ctx.mk ofRat i j outT bT e d σ.heap σ.tensors ta bp0 bc0 bp1 bc1 bv) atr o.st := by
    rw [sparse2_generateIr_assemble_eq ofRat cap a formats i j outT bT e hout ok.hij ok.ho ok.he hf hidx hrhs]
      at hgenA
    cases hgenA
    exact kernel_runsA ok cap formats hfmt hk0 hk1 init fuel hfuel
  obtain ⟨trA, p0, c0, p1, c1, v, vblkA, h1, h2, h3, h4, h5, h6, h7, h8, h9, h10, h11, h12, h13, h14, h15, h16,
    h17, initC⟩ := initC_after_assemble ok init hab hpA
  have hnd : p0 ≠ v ∧ c0 ≠ v ∧ p1 ≠ v ∧ c1 ≠ v := by
    simp only [List.nodup_cons, List.mem_cons, List.not_mem_nil, or_false, not_or] at h7
    exact ⟨h7.1.2.2.2, h7.2.1.2.2, h7.2.2.1.2, h7.2.2.2.1⟩
  -- compute
  obtain ⟨oC, eC, rC, _, htC, hlC, hoC, blk0, blkC, hb0, hbC, q1, q2, q3, q4, q5, _⟩ :=
    sparse2_compute_correct ofRat cap a formats i j outT bT e hout hf hidx hrhs hfmt d ta tb trA btr n m
      bp0 bc0 bp1 bc1 bv d.nnz v (nextCall σ oA.st) (ok.next hpA.heap) initC (Nat.le_refl _) fC hgenC fuel hfuel
  have hb0' : oA.st.heap[v]? = some blk0 := hb0
  rw [h13] at hb0'; cases hb0'
  -- evaluate
  obtain ⟨oE, eE, rE, _, ⟨trE, p0E, c0E, p1E, c1E, vE, vblkE, g1, g2, g3, g4, g5, g6, _, _, g9, g10, g11, g12,
    g13, g14, g15, g16, g17, g18⟩, _⟩ :=
    sparse2_kernel_correct ofRat cap a formats i j outT bT e hout hf hidx hrhs hfmt hk0 hk1 d ta tb atr btr n m
      bp0 bc0 bp1 bc1 bv σ ok init fE hgenE fuel hfuel
  have e9 : oC.st.heap[p0]? = _ := (hoC p0 hnd.1).trans h9
  have e10 : oC.st.heap[c0]? = _ := (hoC c0 hnd.2.1).trans h10
  have e11 : oC.st.heap[p1]? = _ := (hoC p1 hnd.2.2.1).trans h11
  have e12 : oC.st.heap[c1]? = _ := (hoC c1 hnd.2.2.2).trans h12
  refine ⟨oA, oC, oE, eA, rA, eC, rC, hlC, htC, eE, rE, trA, trE, p0, c0, p1, c1, v, p0E, c0E, p1E, c1E, vE,
    blkC, vblkE, by rw [htC]; exact h1, g1, h5, h6, g5, g6, by rw [h2, g2], by rw [h3, g3], by rw [h4, g4],
    e9, by rw [e9, g9], e10, by rw [e10, g10], e11, by rw [e11, g11], e12, by rw [e12, g12],
    hbC, g13, by rw [q1, h16, g16], by rw [q2, h15, g15], by rw [q3, h14, g14], by rw [q4, h17], g17, ?_, q5,
    ?_, ?_⟩
  · intro q hq
    rw [q5 q hq, g18 q hq]
  · intro k hk
    rw [htC]
    exact hpA.otherRecs k hk
  · intro k hk
    have hv := h8 v (by simp)
    rw [hoC k (by have : k < σ.heap.length := hk; intro e; subst e; exact absurd hv (by show ¬ σ.heap.length ≤ k; omega))]
    exact hpA.heap k hk

/-- **A4, re-running `compute` with new input values.** Let `σ` be a state from which `compute` may be called
(`InitC`, e.g. the state after `assemble`), with input values `d.vals`; run `compute` (→ `o1.st`). Let `σ2` be
ANY state in which the next call may start after the caller has overwritten the input's VALUES: the parameter
environment of `σ`, the tensor records of `o1.st`, a heap of the same length that agrees with `o1.st`'s
everywhere except at `b`'s `vals` block `bv`, which is now some live `float` block whose first `nnz` cells hold
`vals'` (same structure; every sub-result of `e` finite). Then `compute` runs again from `σ2`, returns `0`, and
in its final state `o2.st`
* all tensor records are still those of the FIRST initial state `σ` and the heap still has the length of
  `σ`'s heap: neither call allocated or touched the structure;
* every block other than the output's `vals` block `vF` and `b`'s `vals` block is as in `σ` (in particular the
  output's `pos`/`crd` blocks of both levels);
* block `vF` — the same block — has its original type, owner, liveness and length and now holds the NEW values
  `valueF ofRat (b ↦ vals' q) e` in its first `nnz` cells. -/
theorem sparse2_compute_rerun (ofRat : Rat → F) (cap : Option Int) (a : Alg.DAssign) (formats : Formats)
    (i j : String) (outT bT : TensorId) (e : IdExpr)
    (hout : tensorId 0 a.tname formats a.tidx = some outT) (hf : ssFormats formats = true)
    (hidx : a.tidx = [i, j]) (hrhs : DenseN.rhsIdx [i, j] a.rhs = true)
    (hfmt : formats.map (·.1) = [outT.name, bT.name])
    (d : BData F) (vals' : Nat → F) (ta tb : Nat) (atr btr : TensorRec F) (n m : Int)
    (bp0 bc0 bp1 bc1 bv r vF : Nat) (σ : State F)
    (ok : (Ctx.mk ofRat i j outT bT e d σ.heap σ.tensors ta bp0 bc0 bp1 bc1 bv).OK)
    (init : InitC (Ctx.mk ofRat i j outT bT e d σ.heap σ.tensors ta bp0 bc0 bp1 bc1 bv) atr btr tb n m r vF σ)
    (hr : d.nnz ≤ r)
    (hfin' : ∀ q, q < d.nnz → ToIr.AllFinite ofRat (fun _ => vals' q) e)
    (f : Func F) (hgen : generateIr ofRat cap a formats (graph i j outT e) .compute = .ok f)
    (fuel : Nat) (hfuel : d.R + d.nnz + 2 ≤ fuel) :
    ∃ o1, exec fuel f.body σ = .ok o1 ∧ o1.ret = some (.int 0) ∧
      o1.st.tensors = σ.tensors ∧ o1.st.heap.length = σ.heap.length ∧
      ∀ σ2 : State F, σ2.vars = σ.vars → σ2.tensors = o1.st.tensors →
        σ2.heap.length = o1.st.heap.length → (∀ k, k ≠ bv → σ2.heap[k]? = o1.st.heap[k]?) →
        (∃ blk, σ2.heap[bv]? = some blk ∧ blk.live = true ∧ blk.ty = .float ∧
          ∀ q, q < d.nnz → blk.cells[q]? = some (some (.flt (vals' q)))) →
        ∃ o2, exec fuel f.body σ2 = .ok o2 ∧ o2.ret = some (.int 0) ∧ o2.iters = d.R + d.nnz ∧
          o2.st.tensors = σ.tensors ∧ o2.st.heap.length = σ.heap.length ∧
          (∀ k, k ≠ vF → k ≠ bv → o2.st.heap[k]? = σ.heap[k]?) ∧
          ∃ blk0 blk, σ.heap[vF]? = some blk0 ∧ o2.st.heap[vF]? = some blk ∧ blk.ty = blk0.ty ∧
            blk.owner = blk0.owner ∧ blk.live = blk0.live ∧ blk.cells.length = blk0.cells.length ∧
            (∀ q, q < d.nnz → blk.cells[q]? = some (some (.flt (ToIr.valueF ofRat (fun _ => vals' q) e)))) ∧
            (∀ q, d.nnz ≤ q → blk.cells[q]? = blk0.cells[q]?) := by
  obtain ⟨o1, e1, r1, _, ht1, hl1, ho1, blk0, blk1, hb0, hb1, a1, a2, a3, a4, _, a6⟩ :=
    sparse2_compute_correct ofRat cap a formats i j outT bT e hout hf hidx hrhs hfmt d ta tb atr btr n m
      bp0 bc0 bp1 bc1 bv r vF σ ok init hr f hgen fuel hfuel
  refine ⟨o1, e1, r1, ht1, hl1, ?_⟩
  intro σ2 hv ht hl hh hval
  obtain ⟨d1, d2⟩ := init.dims_ne ok
  obtain ⟨ablk, hab, halive, haown, haty, halen⟩ := init.vblk
  rw [hab] at hb0; cases hb0
  obtain ⟨n1, n2, n3, n4, n5⟩ := init.vne
  have hvF2 : σ2.heap[vF]? = some blk1 := by rw [hh vF n5]; exact hb1
  obtain ⟨x1, y1, _, t1, _⟩ := ok.p0
  obtain ⟨x2, y2, _, t2, _⟩ := ok.c0
  obtain ⟨x3, y3, _, t3, _⟩ := ok.p1
  obtain ⟨x4, y4, _, t4, _⟩ := ok.c1
  obtain ⟨x5, y5, _, t5, _⟩ := ok.v
  have m1 : bp0 ≠ bv := by intro e; rw [e] at y1; rw [y1] at y5; cases y5; rw [t1] at t5; cases t5
  have m2 : bc0 ≠ bv := by intro e; rw [e] at y2; rw [y2] at y5; cases y5; rw [t2] at t5; cases t5
  have m3 : bp1 ≠ bv := by intro e; rw [e] at y3; rw [y3] at y5; cases y5; rw [t3] at t5; cases t5
  have m4 : bc1 ≠ bv := by intro e; rw [e] at y4; rw [y4] at y5; cases y5; rw [t4] at t5; cases t5
  have ok2 := ok.revalue vals' (σ2 := σ2) hfin'
    (by show σ2.heap[bp0]? = σ.heap[bp0]?; rw [hh _ m1, ho1 _ (Ne.symm n1)])
    (by show σ2.heap[bc0]? = σ.heap[bc0]?; rw [hh _ m2, ho1 _ (Ne.symm n2)])
    (by show σ2.heap[bp1]? = σ.heap[bp1]?; rw [hh _ m3, ho1 _ (Ne.symm n3)])
    (by show σ2.heap[bc1]? = σ.heap[bc1]?; rw [hh _ m4, ho1 _ (Ne.symm n4)])
    hval
  have init2 := init.transport (σ2 := σ2) { d with vals := vals' } hv (by rw [ht, ht1])
      (by rw [hh _ d2, ho1 _ d1])
      ⟨blk1, hvF2, by rw [a3]; exact halive, by rw [a2]; exact haown, by rw [a1]; exact haty,
        by rw [a4]; exact halen⟩
  obtain ⟨o2, e2, r2, it2, ht2, hl2, ho2, blk0', blk2, hb0', hb2, b1, b2, b3, b4, b5, b6⟩ :=
    sparse2_compute_correct ofRat cap a formats i j outT bT e hout hf hidx hrhs hfmt { d with vals := vals' }
      ta tb atr btr n m bp0 bc0 bp1 bc1 bv r vF σ2 ok2 init2 hr f hgen fuel hfuel
  rw [hvF2] at hb0'; cases hb0'
  refine ⟨o2, e2, r2, it2, by rw [ht2, ht, ht1], by rw [hl2, hl, hl1], ?_, blk0, blk2, hab, hb2,
    by rw [b1, a1], by rw [b2, a2], by rw [b3, a3], by rw [b4, a4], b5, ?_⟩
  · intro k hk1 hk2
    rw [ho2 k hk1, hh k hk2, ho1 k hk1]
  · intro q hq
    rw [b6 q hq, a6 q hq]

/-! ### non-vacuity: the closed instance of `C01Sparse2.lean` -/

/-- **A1 is not vacuous**: on the instance `a(i,j) = 2 * b(i,j)` (initial capacity 1) every hypothesis holds and
`generateIr` returns the two kernels, which are functions named `assemble` / `compute` with the two tensor
parameters. -/
example :
    generateIr exOfRat (some 1) exAssign exFormats (graph "i" "j" exOut exE) .assemble =
      .ok (kernelA (some 1) exFormats "i" "j" exOut exB) ∧
    generateIr exOfRat (some 1) exAssign exFormats (graph "i" "j" exOut exE) .compute =
      .ok (kernelC exOfRat exFormats "i" "j" exOut exB exE) ∧
    (kernelA (F := Int) (some 1) exFormats "i" "j" exOut exB).name = "assemble" ∧
    (kernelC exOfRat exFormats "i" "j" exOut exB exE).name = "compute" ∧
    (kernelC exOfRat exFormats "i" "j" exOut exB exE).params = [("a", .ptr .tensor), ("b", .ptr .tensor)] :=
  ⟨sparse2_generateIr_assemble_eq exOfRat (some 1) exAssign exFormats "i" "j" exOut exB exE (by decide)
      (by decide) (by decide) (by decide) (by decide) rfl (by decide),
   sparse2_generateIr_compute_eq exOfRat (some 1) exAssign exFormats "i" "j" exOut exB exE (by decide)
      (by decide) (by decide) (by decide) (by decide) rfl (by decide), rfl, rfl, rfl⟩

/-! ### non-vacuity of A2–A4 -/

/-- output record `0` and input record `1` of the instance are different -/
theorem exRecsNe2 : (0 : Nat) ≠ 1 := by decide

/-- **A1–A4 are not vacuous** (over `Int`, initial capacity 1 — `assemble` reallocates every growing array): on
the closed instance of `C01Sparse2.lean` every hypothesis holds, `generateIr` produces the three kernels,
`assemble` returns `0`, `compute` called next returns `0` without allocating, and the output record then points
to `pos0 = [0, 2]`, `crd0 = [0, 3]`, `pos1 = [0, 1, 3]`, `crd1 = [1, 0, 2]`, `vals = [4, 10, 14, ·]` (4 cells) —
what `evaluate` leaves (the example of `C01Sparse2.lean`). -/
example : ∃ fA fC oA oC,
    generateIr exOfRat (some 1) exAssign exFormats (graph "i" "j" exOut exE) .assemble = .ok fA ∧
    generateIr exOfRat (some 1) exAssign exFormats (graph "i" "j" exOut exE) .compute = .ok fC ∧
    exec 8 fA.body (exStateOf (F := Int) id) = .ok oA ∧ oA.ret = some (.int 0) ∧
    exec 8 fC.body (nextCall (exStateOf (F := Int) id) oA.st) = .ok oC ∧ oC.ret = some (.int 0) ∧
    oC.st.heap.length = oA.st.heap.length ∧ oC.st.tensors = oA.st.tensors ∧
    ∃ tr' p0 c0 p1 c1 v vblk, oC.st.tensors[0]? = some tr' ∧
      tr'.slots = [some (.ptr p0 0, .ptr c0 0), some (.ptr p1 0, .ptr c1 0)] ∧ tr'.vals = .ptr v 0 ∧
      oC.st.heap[p0]? = some ⟨.int, [some (.int 0), some (.int 2)], .output, true⟩ ∧
      oC.st.heap[c0]? = some ⟨.int, [some (.int 0), some (.int 3)], .output, true⟩ ∧
      oC.st.heap[p1]? = some ⟨.int, [some (.int 0), some (.int 1), some (.int 3)], .output, true⟩ ∧
      oC.st.heap[c1]? = some ⟨.int, [some (.int 1), some (.int 0), some (.int 2)], .output, true⟩ ∧
      oC.st.heap[v]? = some vblk ∧ vblk.cells.length = 4 ∧
      vblk.cells[0]? = some (some (.flt 4)) ∧ vblk.cells[1]? = some (some (.flt 10)) ∧
      vblk.cells[2]? = some (some (.flt 14)) := by
  have hgenA := sparse2_generateIr_assemble_eq exOfRat (some 1) exAssign exFormats "i" "j" exOut exB exE
    (by decide) (by decide) (by decide) (by decide) (by decide) rfl (by decide)
  have hgenC := sparse2_generateIr_compute_eq exOfRat (some 1) exAssign exFormats "i" "j" exOut exB exE
    (by decide) (by decide) (by decide) (by decide) (by decide) rfl (by decide)
  have hgenE := sparse2_generateIr_eq exOfRat (some 1) exAssign exFormats "i" "j" exOut exB exE (by decide)
    (by decide) (by decide) (by decide) (by decide) rfl (by decide)
  obtain ⟨oA, oC, oE, eA, rA, eC, rC, hl, ht, _, _, trC, trE, p0, c0, p1, c1, v, _, _, _, _, _, blkC, blkE, h1, _,
    h3, h4, _, _, _, _, _, h10, _, h12, _, h14, _, h16, _, h18, _, _, _, _, h23, _, _, h26, _⟩ :=
    sparse2_assemble_compute_eq_evaluate exOfRat (some 1) exAssign exFormats "i" "j" exOut exB exE (by decide)
      (by decide) rfl (by decide) rfl (by decide) (by decide) (exD (F := Int) id) 0 1 exRecsNe2 _ _ 4 3 2 3 4 5 6
      (exStateOf (F := Int) id) (exOK exOfRat id (fun q _ => ToIr.Ex.allFinite_int _ _ _)) (exInitOf exOfRat id)
      _ _ _ hgenA hgenC hgenE 8 (by decide)
  exact ⟨_, _, oA, oC, hgenA, hgenC, eA, rA, eC, rC, hl, ht, trC, p0, c0, p1, c1, v, blkC, h1, h3, h4, h10, h12,
    h14, h16, h18, h23, h26 0 (by decide), h26 1 (by decide), h26 2 (by decide)⟩

/-- **A2 alone on the instance**: after `assemble` (capacity 1; `3 + 3 = 6` iterations) the output record points
to `pos0 = [0, 2]`, `crd0 = [0, 3]`, `pos1 = [0, 1, 3]`, `crd1 = [1, 0, 2]` and a `vals` block of exactly 4 cells -/
example : ∃ f o, generateIr exOfRat (some 1) exAssign exFormats (graph "i" "j" exOut exE) .assemble = .ok f ∧
    exec 8 f.body (exStateOf (F := Int) id) = .ok o ∧ o.ret = some (.int 0) ∧ o.iters = 6 ∧
    ∃ tr' p0 c0 p1 c1 v vblk, o.st.tensors[0]? = some tr' ∧
      tr'.slots = [some (.ptr p0 0, .ptr c0 0), some (.ptr p1 0, .ptr c1 0)] ∧ tr'.vals = .ptr v 0 ∧
      o.st.heap[p0]? = some ⟨.int, [some (.int 0), some (.int 2)], .output, true⟩ ∧
      o.st.heap[c0]? = some ⟨.int, [some (.int 0), some (.int 3)], .output, true⟩ ∧
      o.st.heap[p1]? = some ⟨.int, [some (.int 0), some (.int 1), some (.int 3)], .output, true⟩ ∧
      o.st.heap[c1]? = some ⟨.int, [some (.int 1), some (.int 0), some (.int 2)], .output, true⟩ ∧
      o.st.heap[v]? = some vblk ∧ vblk.live = true ∧ vblk.ty = .float ∧ vblk.cells.length = 4 := by
  have hgen := sparse2_generateIr_assemble_eq exOfRat (some 1) exAssign exFormats "i" "j" exOut exB exE
    (by decide) (by decide) (by decide) (by decide) (by decide) rfl (by decide)
  obtain ⟨o, eo, hret, hit, ⟨tr', p0, c0, p1, c1, v, vblk, h1, _, _, _, h5, h6, _, _, h9, h10, h11, h12, h13, h14,
    _, h16, h17⟩, _⟩ :=
    sparse2_assemble_correct exOfRat (some 1) exAssign exFormats "i" "j" exOut exB exE (by decide) (by decide) rfl
      (by decide) rfl (by decide) (by decide) (exD (F := Int) id) 0 1 _ _ 4 3 2 3 4 5 6 (exStateOf (F := Int) id)
      (exOK exOfRat id (fun q _ => ToIr.Ex.allFinite_int _ _ _)) (exInitOf exOfRat id) _ hgen 8 (by decide)
  exact ⟨_, o, hgen, eo, hret, hit, tr', p0, c0, p1, c1, v, vblk, h1, h5, h6, h9, h10, h11, h12, h13, h14, h16,
    h17⟩

end TV.Sparse2
