import TensoraVerif.Lemmas.FrameHeap
import TensoraVerif.Lemmas.FrameFuel
import TensoraVerif.Lemmas.FrameExamples

/-!
C05 — a run of the abstract machine (`Model/Machine.lean`, `exec`) never modifies what it was given
as input: for all programs, all states and all fuel, input-owned heap blocks and input-owned tensor
records are identical before and after; the heap only grows, blocks keep their element type and
owner, freed blocks stay freed and untouched; and the outcome of a successful run does not depend
on the fuel bound. All four follow from one invariant (`HeapLe`, `Lemmas/FrameHeap.lean`) carried
through one induction over `exec` (`exec_inv`, `Lemmas/FrameBasic.lean`).
-/
namespace TV.IR
variable {F : Type} [FloatOps F]

/-- input-owned blocks are bit-for-bit unchanged (and still live) after any successful run -/
theorem exec_input_blocks_unchanged (fuel : Nat) (s : Stmt F) (σ : State F) (o : Out F)
    (h : exec fuel s σ = .ok o) (b : Nat) (blk : Block F)
    (hb : σ.heap[b]? = some blk) (hin : blk.owner = .input) : o.st.heap[b]? = some blk := by
  obtain ⟨blk', e', _, _, _, hi⟩ := (exec_heapLe fuel s σ o h).2.1 b blk hb
  rw [e', hi hin]

/-- input-owned tensor records (their slot pointers and vals pointer) are unchanged -/
theorem exec_input_tensors_unchanged (fuel : Nat) (s : Stmt F) (σ : State F) (o : Out F)
    (h : exec fuel s σ = .ok o) (t : Nat) (tr : TensorRec F)
    (ht : σ.tensors[t]? = some tr) (hin : tr.owner = .input) : o.st.tensors[t]? = some tr :=
  (exec_heapLe fuel s σ o h).2.2 t tr ht hin

/-- the heap only grows, a block never changes element type or owner, a dead block stays dead -/
theorem exec_heap_monotone (fuel : Nat) (s : Stmt F) (σ : State F) (o : Out F)
    (h : exec fuel s σ = .ok o) :
    σ.heap.length ≤ o.st.heap.length ∧
    ∀ (b : Nat) (blk : Block F), σ.heap[b]? = some blk → ∃ blk', o.st.heap[b]? = some blk' ∧ blk'.ty = blk.ty ∧
      blk'.owner = blk.owner ∧ (blk.live = false → blk' = blk) := by
  obtain ⟨hn, hb, _⟩ := exec_heapLe fuel s σ o h
  refine ⟨hn, fun b blk e => ?_⟩
  obtain ⟨blk', e', h1, h2, h3, _⟩ := hb b blk e
  exact ⟨blk', e', h1, h2, h3⟩

/-- more fuel never changes a successful run ("terminates" is independent of the fuel bound) -/
theorem exec_fuel_mono (fuel k : Nat) (s : Stmt F) (σ : State F) (o : Out F)
    (h : exec fuel s σ = .ok o) : exec (fuel + k) s σ = .ok o :=
  exec_mono k fuel s σ o h

/-! ### non-vacuity (over the exact carrier `F := Int`) -/

/-- a program that allocates, reallocates (freeing a block), writes the heap and an output tensor
record runs to completion on a state with an input block and an input tensor … -/
example : ∃ o, exec 0 FrameEx.growProg FrameEx.st = .ok o ∧ o.st.heap.length = 4 :=
  FrameEx.grow_runs

/-- … and the theorems apply: input block 0 and input tensor 0 are unchanged, the heap grew, and
the same result is obtained with any larger fuel. -/
example : ∃ o, exec 5 FrameEx.growProg FrameEx.st = .ok o ∧
    o.st.heap[0]? = some ⟨.int, [some (.int 7), some (.int 8)], .input, true⟩ ∧
    o.st.tensors[0]? = some ⟨1, 0, [none], .ptr 0 0, .input⟩ ∧
    FrameEx.st.heap.length ≤ o.st.heap.length := by
  obtain ⟨o, h, _⟩ := FrameEx.grow_runs
  exact ⟨o, exec_fuel_mono 0 5 _ _ o h,
    exec_input_blocks_unchanged 0 _ _ o h 0 _ rfl rfl,
    exec_input_tensors_unchanged 0 _ _ o h 0 _ rfl rfl,
    (exec_heap_monotone 0 _ _ o h).1⟩

/-- the machine rejects a write to an input block (here `a[0] = 1`) -/
example : exec 0 (.assign (.idx (.var "a") (.intLit 0)) (.intLit 1)) FrameEx.st
    = .error .writeInput := by
  simp [FrameEx.st, exec, evalRhs, evalE, evalLoc, store, lookupVar, chkInt, chkVal, inI32, hasTy,
    bind, Except.bind]

end TV.IR
