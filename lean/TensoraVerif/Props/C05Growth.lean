import TensoraVerif.Lemmas.GrowthNames
import TensoraVerif.Lemmas.GrowthAppend
import TensoraVerif.Lemmas.GrowthExamples

/-!
C05, "writes only inside arrays it allocated itself (growing them before they overflow, however
small they started) … performs no signed 32-bit overflow": Hoare-style theorems ON THE MACHINE
(`Model/Machine.lean`) about the IR fragments `TV.Gen` emits to append to the output's growing
arrays, for ALL states satisfying the array invariant `ArrInv` (`Lemmas/GrowthBasic.lean`) and
parametric in the leaf (hence in all variable names).

* G1 `writeCrdAssembly_safe`
* G2 `writePosAllocation_nodense_safe`, `writePosAllocation_dense_safe` (both targets, `pos` of the
  next sparse layer and `vals`, through `allocArr`/`allocCap`/`allocEty`/`allocBonus`)
* G3 `writePosAssembly_safe`
* G4 `appendProg_safe`, `append_from_init_safe` (any number of appends, any initial capacity)
* names: `writeCrdAssembly_namesDistinct`; closed counterexamples:
  `writePosAllocation_nodense_insufficient`, `writePosAllocation_dense_not_strict`
-/
namespace TV.Growth
open TV.IR TV.Gen TV.Graph

set_option linter.unusedSectionVars false
variable {F : Type} [FloatOps F]

/-- **G1.** `if (p >= crd_cap) { crd_cap *= 2; crd = realloc(crd, crd_cap); } crd[p] = i;`
From every state in which the `crd` array of the leaf satisfies the array invariant (block `b`,
capacity `c ≥ 1`), the cursor holds `0 ≤ p ≤ c`, the index variable holds an int32 `v`, and — only
when the array is full (`c ≤ p`) — `2 * c < 2^31`, the fragment runs without error and without
returning, for every fuel. Afterwards (`StorePost`): the invariant holds again for a block `b'` and
capacity `c' ≥ c` with `p < c'`; cell `p` of the array is `v`; every other old cell is unchanged;
every variable other than the array pointer and its capacity (in particular cursor and index) is
unchanged; every other block of the old heap is unchanged; the old block is still the array or has
been killed by `realloc` (then `b'` is fresh); tensor records are unchanged. -/
theorem writeCrdAssembly_safe (out : Leaf) (fuel : Nat) (σ : State F) (b : Nat) (c p v : Int)
    (hinv : ArrInv σ (crdName out.tensor.name out.layer) (crdCapName out.tensor.name out.layer) .int b c)
    (hp : IntVar σ out.ptr p) (hp0 : 0 ≤ p) (hpc : p ≤ c)
    (hv : IntVar σ out.index v) (hv0 : -2147483648 ≤ v) (hv1 : v < 2147483648)
    (hov : c ≤ p → 2 * c < 2147483648)
    (hnames : namesDistinct out) :
    ∃ o b' c', exec fuel (writeCrdAssembly out).finalize σ = .ok o ∧ o.ret = none ∧
      StorePost σ o.st (crdName out.tensor.name out.layer) (crdCapName out.tensor.name out.layer) .int
        b c p (.int v) b' c' ∧
      IntVar o.st out.ptr p ∧ IntVar o.st out.index v := by
  obtain ⟨σ', b', c', ⟨o, e, r, s⟩, sp, h1, h2⟩ :=
    crdAssembly_runs out fuel σ b c p v hinv hp hp0 hpc hv hv0 hv1 hov hnames
  subst s
  exact ⟨o, b', c', e, r, sp, h1, h2⟩

/-- **G2, variant without dense levels below.**
`if (p + bonus >= cap) { cap *= 2; arr = realloc(arr, cap); }` where `arr`/`cap` is the `pos` array
of the next sparse layer (`bonus = 1`) or the `vals` array (`bonus = 0`).
From every state satisfying the array invariant for the target array (capacity `c ≥ 1`) in which the
cursor holds `0 ≤ p` with `p + bonus < 2^31`, and — only when the guard fires (`c ≤ p + bonus`) —
`2 * c < 2^31`, the fragment runs without error. Afterwards `GrowPost` holds (invariant for `b'`,
`c' ≥ c`; old cells, other variables, other blocks, tensors unchanged), the new capacity is exactly
`c` if `p + bonus < c` and `2 * c` otherwise; in particular, IF `p + bonus ≤ c` (one doubling
suffices) THEN the index the kernel writes next is in bounds: `p + bonus < c'`.
The extra precondition is necessary: see `writePosAllocation_nodense_insufficient`. -/
theorem writePosAllocation_nodense_safe (out : Leaf) (fuel : Nat) (σ : State F) (b : Nat) (c p : Int)
    (hd : denseBelow out.tensor out.layer = [])
    (hinv : ArrInv σ (allocArr out) (allocCap out) (allocEty out) b c)
    (hp : IntVar σ out.ptr p) (hp0 : 0 ≤ p) (hp1 : p + allocBonus out < 2147483648)
    (hov : c ≤ p + allocBonus out → 2 * c < 2147483648) :
    ∃ o b' c', exec fuel (writePosAllocation out).finalize σ = .ok o ∧ o.ret = none ∧
      GrowPost σ o.st (allocArr out) (allocCap out) (allocEty out) b c b' c' ∧
      c' = (if p + allocBonus out < c then c else 2 * c) ∧
      (p + allocBonus out ≤ c → p + allocBonus out < c') := by
  have hlt := hinv.lt
  have hpos := hinv.pos
  have hbonus := allocBonus_cases out
  have ecap := evalE_var_int hinv.cap (by omega) hlt
  have eptr := evalE_var_int hp (by omega) (by omega)
  have emin : evalE σ (plus (.var out.ptr) (.intLit (allocBonus out))) = .ok (.int (p + allocBonus out)) :=
    evalE_add eptr (evalE_intLit (by omega) (by omega)) (by omega) hp1
  obtain ⟨σ1, b1, c1, hrun, g, hc1⟩ := guard_runs (fuel := fuel)
    (newCap := times (.var (allocCap out)) (.intLit 2)) (c' := c * 2)
    hinv (allocArr_ne_allocCap out) (elemOf_allocTy out) emin
    (fun hcp => ⟨evalE_mul ecap (evalE_intLit (by omega) (by omega)) (by omega) (by have := hov hcp; omega),
      by omega, by have := hov hcp; omega⟩)
  obtain ⟨o, e, r, s⟩ := Runs.block (c := some (allocComment out)) (RunsL.cons hrun (RunsL.nil _ _))
  refine ⟨o, b1, c1, by rw [writePosAllocation_shape_nodense out hd]; exact e, r, by rw [s]; exact g, ?_, ?_⟩
  · rw [hc1]; split <;> omega
  · intro h; rw [hc1]; split <;> omega

/-- **G2, variant with dense levels `d1 … dk` below.**
`m = (p + 1) * d1 * … * dk + bonus; if (m >= cap) { cap = max(cap * 2, m); arr = realloc(arr, cap); }`.
From every state satisfying the array invariant for the target array (capacity `c ≥ 1`) in which the
cursor holds `0 ≤ p`, the dense dimension variables hold the values `ds`, every dimension is a
non-negative int32 and every partial product `d1 * … * dj` is `< 2^31` (`ProdsOK`), `p + 1` and
`(p + 1) * Πd + bonus` are `< 2^31`, and — only when the guard fires — `2 * c < 2^31`:
the fragment runs without error. Afterwards `GrowPost` holds, the new capacity is exactly `c` if
`m < c` and `max (2 * c) m` otherwise, hence `m ≤ c'` WITHOUT any precondition relating `p` and
`c` (the `max` makes one step suffice), and every index the kernel writes in the dense run below
position `p`, `p * Πd + j + bonus` for `0 ≤ j < Πd`, is in bounds.
`m < c'` does NOT hold in general: see `writePosAllocation_dense_not_strict`. -/
theorem writePosAllocation_dense_safe (out : Leaf) (fuel : Nat) (σ : State F) (b : Nat) (c p : Int)
    (ds : List Int)
    (hd : denseBelow out.tensor out.layer ≠ [])
    (hinv : ArrInv σ (allocArr out) (allocCap out) (allocEty out) b c)
    (hp : IntVar σ out.ptr p) (hp0 : 0 ≤ p)
    (hdims : DimVars σ (denseBelow out.tensor out.layer) ds) (hok : ProdsOK 1 ds)
    (hp1 : p + 1 < 2147483648)
    (hm2 : (p + 1) * prodFrom 1 ds + allocBonus out < 2147483648)
    (hov : c ≤ (p + 1) * prodFrom 1 ds + allocBonus out → 2 * c < 2147483648) :
    ∃ o b' c', exec fuel (writePosAllocation out).finalize σ = .ok o ∧ o.ret = none ∧
      GrowPost σ o.st (allocArr out) (allocCap out) (allocEty out) b c b' c' ∧
      c' = (if (p + 1) * prodFrom 1 ds + allocBonus out < c then c
            else max (2 * c) ((p + 1) * prodFrom 1 ds + allocBonus out)) ∧
      (p + 1) * prodFrom 1 ds + allocBonus out ≤ c' ∧
      (∀ j, 0 ≤ j → j < prodFrom 1 ds → p * prodFrom 1 ds + j + allocBonus out < c') := by
  have hlt := hinv.lt
  have hpos := hinv.pos
  have hbonus := allocBonus_cases out
  have hD := prodFrom_nonneg (by omega) hok
  have hpD : 0 ≤ (p + 1) * prodFrom 1 ds := Int.mul_nonneg (by omega) hD
  have ecap := evalE_var_int hinv.cap (by omega) hlt
  have eptr := evalE_var_int hp (by omega) (by omega)
  have emin : evalE σ (denseMinCap out) = .ok (.int ((p + 1) * prodFrom 1 ds + allocBonus out)) :=
    evalE_add
      (evalE_mul (evalE_add eptr (evalE_intLit (by omega) (by omega)) (by omega) hp1)
        (evalE_mulJoin _ _ hdims hok) (by omega) (by omega))
      (evalE_intLit (by omega) (by omega)) (by omega) hm2
  obtain ⟨σ1, b1, c1, hrun, g, hc1⟩ := guard_runs (fuel := fuel)
    (newCap := .bin .max (times (.var (allocCap out)) (.intLit 2)) (denseMinCap out))
    (c' := if c * 2 > (p + 1) * prodFrom 1 ds + allocBonus out then c * 2
           else (p + 1) * prodFrom 1 ds + allocBonus out)
    hinv (allocArr_ne_allocCap out) (elemOf_allocTy out) emin
    (fun hcp => ⟨evalE_max
        (evalE_mul ecap (evalE_intLit (by omega) (by omega)) (by omega) (by have := hov hcp; omega)) emin,
      by split <;> omega, by have := hov hcp; split <;> omega⟩)
  obtain ⟨o, e, r, s⟩ := Runs.block (c := some (allocComment out)) (RunsL.cons hrun (RunsL.nil _ _))
  have hc1' : c1 = (if (p + 1) * prodFrom 1 ds + allocBonus out < c then c
            else max (2 * c) ((p + 1) * prodFrom 1 ds + allocBonus out)) := by
    rw [hc1]; split
    · rfl
    · split <;> omega
  have hle : (p + 1) * prodFrom 1 ds + allocBonus out ≤ c1 := by
    rw [hc1']; split <;> omega
  refine ⟨o, b1, c1, by rw [writePosAllocation_shape_dense out hd]; exact e, r, by rw [s]; exact g,
    hc1', hle, ?_⟩
  intro j _ hj
  have : (p + 1) * prodFrom 1 ds = p * prodFrom 1 ds + prodFrom 1 ds := by
    rw [Int.add_mul, Int.one_mul]
  omega

/-- **G2, dense variant, all dimensions `≥ 1`** (the case in which a kernel writes anything at all):
the single arithmetic side condition `(p + 1) * Πd + bonus < 2^31` (plus `2 * c < 2^31` when the
guard fires) implies all the others. -/
theorem writePosAllocation_dense_safe_of_pos (out : Leaf) (fuel : Nat) (σ : State F) (b : Nat) (c p : Int)
    (ds : List Int)
    (hd : denseBelow out.tensor out.layer ≠ [])
    (hinv : ArrInv σ (allocArr out) (allocCap out) (allocEty out) b c)
    (hp : IntVar σ out.ptr p) (hp0 : 0 ≤ p)
    (hdims : DimVars σ (denseBelow out.tensor out.layer) ds) (hpos : ∀ d ∈ ds, 1 ≤ d)
    (hm2 : (p + 1) * prodFrom 1 ds + allocBonus out < 2147483648)
    (hov : c ≤ (p + 1) * prodFrom 1 ds + allocBonus out → 2 * c < 2147483648) :
    ∃ o b' c', exec fuel (writePosAllocation out).finalize σ = .ok o ∧ o.ret = none ∧
      GrowPost σ o.st (allocArr out) (allocCap out) (allocEty out) b c b' c' ∧
      c' = (if (p + 1) * prodFrom 1 ds + allocBonus out < c then c
            else max (2 * c) ((p + 1) * prodFrom 1 ds + allocBonus out)) ∧
      (p + 1) * prodFrom 1 ds + allocBonus out ≤ c' ∧
      (∀ j, 0 ≤ j → j < prodFrom 1 ds → p * prodFrom 1 ds + j + allocBonus out < c') := by
  have hbonus := allocBonus_cases out
  have hD1 : 1 ≤ prodFrom 1 ds := one_le_prodFrom (Int.le_refl 1) hpos
  have h1 : prodFrom 1 ds ≤ (p + 1) * prodFrom 1 ds := by
    have := Int.mul_le_mul (by omega : (1 : Int) ≤ p + 1) (Int.le_refl (prodFrom 1 ds)) (by omega) (by omega)
    omega
  have h2 : p + 1 ≤ (p + 1) * prodFrom 1 ds := by
    have := Int.mul_le_mul (Int.le_refl (p + 1)) hD1 (by omega) (by omega)
    omega
  exact writePosAllocation_dense_safe out fuel σ b c p ds hd hinv hp hp0 hdims
    (prodsOK_of_pos (Int.le_refl 1) hpos (by omega)) (by omega) hm2 hov

/-- **The side condition `2 * c < 2^31` is necessary** (variant without dense levels): when the guard
fires and `2 * c ≥ 2^31`, the machine stops with a signed 32-bit overflow. -/
theorem writePosAllocation_nodense_overflow (out : Leaf) (fuel : Nat) (σ : State F) (b : Nat) (c p : Int)
    (hd : denseBelow out.tensor out.layer = [])
    (hinv : ArrInv σ (allocArr out) (allocCap out) (allocEty out) b c)
    (hp : IntVar σ out.ptr p) (hp0 : 0 ≤ p) (hp1 : p + allocBonus out < 2147483648)
    (hfire : c ≤ p + allocBonus out) (hbig : 2147483648 ≤ 2 * c) :
    exec fuel (writePosAllocation out).finalize σ = .error .intOverflow := by
  have hlt := hinv.lt
  have hpos := hinv.pos
  have hbonus := allocBonus_cases out
  have ecap := evalE_var_int hinv.cap (by omega) hlt
  have eptr := evalE_var_int hp (by omega) (by omega)
  have emin : evalE σ (plus (.var out.ptr) (.intLit (allocBonus out))) = .ok (.int (p + allocBonus out)) :=
    evalE_add eptr (evalE_intLit (by omega) (by omega)) (by omega) hp1
  have eov : evalE σ (times (.var (allocCap out)) (.intLit 2)) = .error .intOverflow :=
    evalE_mul_overflow ecap (evalE_intLit (by omega) (by omega)) (by omega)
  rw [writePosAllocation_shape_nodense out hd, exec.eq_5, execL.eq_2,
    guard_error (ty := allocTy out) hinv emin hfire eov (by decide)]
  rfl

/-- **G3.** `pos[prev + 1] = p;` From every state in which the `pos` array of the leaf satisfies the
array invariant (block `b`, contents `blk`, capacity `c`), `out.prevPtr` has the value
`0 ≤ prev` with `prev + 1 < c`, and the cursor holds an int32 `p ≥ 0`, the store succeeds, and the
final state is the initial state with cell `prev + 1` of block `b` set to `p` — nothing else
changes (the invariant in particular still holds). -/
theorem writePosAssembly_safe (out : Leaf) (fuel : Nat) (σ : State F) (b : Nat) (c p prev : Int)
    (blk : Block F)
    (hinv : ArrInv σ (posName out.tensor.name out.layer) (posCapName out.tensor.name out.layer) .int b c)
    (hb : σ.heap[b]? = some blk)
    (hprev : PrevIs σ out prev) (hprev0 : 0 ≤ prev) (hprev1 : prev + 1 < c)
    (hp : IntVar σ out.ptr p) (hp0 : 0 ≤ p) (hp1 : p < 2147483648) :
    ∃ o, exec fuel (writePosAssembly out).finalize σ = .ok o ∧ o.ret = none ∧
      o.st = { σ with
        heap := σ.heap.set b { blk with cells := blk.cells.set (prev + 1).toNat (some (.int p)) } } ∧
      ArrInv o.st (posName out.tensor.name out.layer) (posCapName out.tensor.name out.layer) .int b c := by
  have hlt := hinv.lt
  obtain ⟨blk0, hb0, hlive, hown, hty, hlen⟩ := hinv.blk
  rw [hb] at hb0; cases hb0
  have eidx : evalE σ (plus (out.prevPtr : Expr F) (.intLit 1)) = .ok (.int (prev + 1)) :=
    evalE_add (evalE_prevPtr hprev hprev0 (by omega)) (evalE_intLit (by omega) (by omega)) (by omega)
      (by omega)
  have hstore := Runs.store_cell (fuel := fuel) (val' := .int p) hinv.arr eidx
    (evalE_var_int hp (by omega) hp1) hb hlive hown (by omega) (by omega) (by rw [hty]; rfl)
  obtain ⟨o, e, r, s⟩ := Runs.block (c := some "pos assembly") (RunsL.cons hstore (RunsL.nil _ _))
  refine ⟨o, by rw [writePosAssembly_shape]; exact e, r, s, ?_⟩
  rw [s]
  refine ⟨hinv.arr, hinv.cap, ⟨{ blk with cells := blk.cells.set (prev + 1).toNat (some (.int p)) }, ?_,
    hlive, hown, hty, ?_⟩, hinv.pos, hinv.lt⟩
  · show (σ.heap.set b _)[b]? = _
    rw [List.getElem?_set_self (lt_length_of_getElem? hb)]
  · simpa using hlen

/-- **G4, from any state satisfying the loop invariant.** `AppInv σ out b c ws`: array invariant
for the `crd` array, cursor `= ws.length ≤ c`, the index variable is an `int`, cells `0 … ws.length`
hold `ws`. Then the appends of ANY list of int32 values `vs` — each `i = v; if (p >= cap) { cap *= 2;
crd = realloc(crd, cap); } crd[p] = i; p += 1;` — run without error as long as
`ws.length + vs.length ≤ 2^30` (so that every doubled capacity and the cursor stay `< 2^31`),
whatever the capacity `c ≥ 1`; afterwards the invariant holds for `ws ++ vs`, tensor records and
every other block of the old heap are unchanged (and none of them became the array). -/
theorem appendProg_safe (out : Leaf) (fuel : Nat) (σ : State F) (b : Nat) (c : Int) (ws vs : List Int)
    (hnames : namesDistinct out) (h : AppInv σ out b c ws)
    (hvs : ∀ v ∈ vs, -2147483648 ≤ v ∧ v < 2147483648)
    (hn : ws.length + vs.length ≤ 1073741824) :
    ∃ o b' c', execL fuel (appendProg out vs) σ = .ok o ∧ o.ret = none ∧
      AppInv o.st out b' c' (ws ++ vs) ∧ o.st.tensors = σ.tensors ∧
      (∀ (k : Nat) (blk : Block F), k ≠ b → σ.heap[k]? = some blk → o.st.heap[k]? = some blk ∧ k ≠ b') := by
  obtain ⟨σ', b', c', ⟨o, e, r, s⟩, h', t, f⟩ := appendProg_runs out fuel hnames vs σ b c ws h hvs hn
  subst s
  exact ⟨o, b', c', e, r, h', t, f⟩

/-- **G4, "however small they started".** From any state in which `crd` is declared as a pointer,
the index variable is an `int`, and the capacity and cursor variables are not yet declared:
`int cap = k; crd = malloc(cap); int p = 0;` (the `crd` part of `appendDeclarations`) followed by the
appends of ANY `n ≤ 2^30` int32 values `vs` runs without error for EVERY initial capacity
`1 ≤ k < 2^31`. Afterwards the array invariant holds (block `b'`, capacity `c' ≥ n`), the cursor is
`n`, `crd[0..n)` = `vs`, and tensor records and ALL blocks of the initial heap are unchanged. -/
theorem append_from_init_safe (out : Leaf) (fuel : Nat) (σ : State F) (k : Int) (vs : List Int)
    (hnames : namesDistinct out)
    (hcrd : ∃ r t, lookupVar σ.vars (crdName out.tensor.name out.layer) = some r ∧ r.ty = .ptr t)
    (hcap : lookupVar σ.vars (crdCapName out.tensor.name out.layer) = none)
    (hptr : lookupVar σ.vars out.ptr = none)
    (hidx : ∃ v0, IntVar σ out.index v0) (hk1 : 1 ≤ k) (hk2 : k < 2147483648)
    (hvs : ∀ v ∈ vs, -2147483648 ≤ v ∧ v < 2147483648)
    (hn : vs.length ≤ 1073741824) :
    ∃ o b' c', exec fuel (.block (crdInit out k ++ appendProg out vs) none) σ = .ok o ∧ o.ret = none ∧
      ArrInv o.st (crdName out.tensor.name out.layer) (crdCapName out.tensor.name out.layer) .int b' c' ∧
      IntVar o.st out.ptr vs.length ∧ (vs.length : Int) ≤ c' ∧ Holds o.st b' vs ∧
      o.st.tensors = σ.tensors ∧
      (∀ (j : Nat) (blk : Block F), σ.heap[j]? = some blk → o.st.heap[j]? = some blk) := by
  obtain ⟨σ1, r1, h1, t1, f1⟩ := crdInit_runs out fuel σ k hnames hcrd hcap hptr hidx hk1 hk2
  obtain ⟨σ2, b2, c2, r2, h2, t2, f2⟩ := appendProg_runs out fuel hnames vs σ1 _ k [] h1 hvs
    (by simpa using hn)
  obtain ⟨o, e, r, s⟩ := Runs.block (c := none) (RunsL.append r1 r2)
  subst s
  simp only [List.nil_append] at h2
  refine ⟨o, b2, c2, e, r, h2.inv, h2.ptr, h2.le, h2.holds, t2.trans t1, ?_⟩
  intro j blk ej
  exact (f2 j blk (Nat.ne_of_lt (lt_length_of_getElem? ej)) (f1 j blk ej)).1

/-! ### names -/

/-- The four names used by `writeCrdAssembly out` are pairwise distinct for every leaf whose index
name contains no `'_'` — whatever the tensor name and id (ids DO contain `'_'`: `"0_A"`); the names
the parser admits are alphanumeric. (The array/capacity names of `writePosAllocation` are distinct
unconditionally, `allocArr_ne_allocCap`, which is why G2 has no name hypothesis.) -/
theorem writeCrdAssembly_namesDistinct (out : Leaf) (h : '_' ∉ out.index.toList) : namesDistinct out :=
  namesDistinct_of_index out h

/-! ### closed counterexamples -/

/-- **The doubling of the variant without dense levels is insufficient without `p + bonus ≤ c`.**
A state satisfying every hypothesis of `writePosAllocation_nodense_safe` (array invariant with
capacity 1, cursor 5, no overflow) from which the fragment runs, the invariant holds again, and the
new capacity `c' = 2` is NOT greater than the index `p + bonus = 6` the kernel writes next. In a
generated kernel `p + bonus ≤ c` is maintained by the surrounding loop (the cursor advances by at
most one between two executions of the guard); it is not established by the fragment itself. -/
theorem writePosAllocation_nodense_insufficient :
    ∃ (out : Leaf) (σ : State Int) (b : Nat) (c p : Int),
      denseBelow out.tensor out.layer = [] ∧
      ArrInv σ (allocArr out) (allocCap out) (allocEty out) b c ∧
      IntVar σ out.ptr p ∧ 0 ≤ p ∧ p + allocBonus out < 2147483648 ∧ 2 * c < 2147483648 ∧
      ∃ o b' c', exec 0 (writePosAllocation out).finalize σ = .ok o ∧
        ArrInv o.st (allocArr out) (allocCap out) (allocEty out) b' c' ∧ c' ≤ p + allocBonus out := by
  refine ⟨Ex.leafA0, Ex.σpos 5, 0, 1, 5, Ex.leafA0_nodense, Ex.σpos_inv 5, Ex.σpos_ptr 5, by decide, by decide,
    by decide, ?_⟩
  obtain ⟨o, b', c', e, _, g, hc, _⟩ := writePosAllocation_nodense_safe Ex.leafA0 0 (Ex.σpos 5) 0 1 5
    Ex.leafA0_nodense (Ex.σpos_inv 5) (Ex.σpos_ptr 5) (by decide) (by decide) (by decide)
  refine ⟨o, b', c', e, g.inv, ?_⟩
  rw [hc, Ex.leafA0_bonus]; decide

/-- **The `max` of the dense variant guarantees `m ≤ c'`, not `m < c'`.** A state satisfying every
hypothesis of `writePosAllocation_dense_safe` (capacity 1, cursor 1, one dense dimension of size 2,
`vals` target) after which the capacity is exactly `m = (p + 1) * d = 4`. This is NOT a defect:
the largest index written in the dense run is `m - 1` (last conclusion of
`writePosAllocation_dense_safe`). -/
theorem writePosAllocation_dense_not_strict :
    ∃ (out : Leaf) (σ : State Int) (b : Nat) (c p : Int) (ds : List Int),
      denseBelow out.tensor out.layer ≠ [] ∧
      ArrInv σ (allocArr out) (allocCap out) (allocEty out) b c ∧
      IntVar σ out.ptr p ∧ 0 ≤ p ∧ DimVars σ (denseBelow out.tensor out.layer) ds ∧ ProdsOK 1 ds ∧
      (p + 1) * prodFrom 1 ds + allocBonus out < 2147483648 ∧ 2 * c < 2147483648 ∧
      ∃ o b' c', exec 0 (writePosAllocation out).finalize σ = .ok o ∧
        ArrInv o.st (allocArr out) (allocCap out) (allocEty out) b' c' ∧
        c' = (p + 1) * prodFrom 1 ds + allocBonus out := by
  refine ⟨Ex.leafB0, Ex.σdvals, 0, 1, 1, [2], by rw [Ex.leafB0_dense]; simp, Ex.σdvals_inv, Ex.σdvals_ptr,
    by decide, Ex.σdvals_dims, Ex.prodsOK_two, by decide, by decide, ?_⟩
  obtain ⟨o, b', c', e, _, g, hc, _⟩ := writePosAllocation_dense_safe Ex.leafB0 0 Ex.σdvals 0 1 1 [2]
    (by rw [Ex.leafB0_dense]; simp) Ex.σdvals_inv Ex.σdvals_ptr (by decide) Ex.σdvals_dims Ex.prodsOK_two
    (by decide) (by decide) (by decide)
  refine ⟨o, b', c', e, g.inv, ?_⟩
  rw [hc, Ex.leafB0_bonus]; decide

/-! ### non-vacuity (over the exact carrier `F := Int`; every array has capacity 1: the guards fire) -/

/-- G1 on a full `crd` array of capacity 1: it is reallocated to capacity 2 and cell 1 receives 7 -/
example : ∃ o b' c', exec 0 (writeCrdAssembly Ex.leafA0).finalize Ex.σcrd = .ok o ∧ o.ret = none ∧
    StorePost Ex.σcrd o.st "A_0_crd" "A_0_crd_capacity" .int 0 1 1 (.int 7) b' c' ∧
    IntVar o.st "p_0_A_0" 1 ∧ IntVar o.st "i" 7 :=
  writeCrdAssembly_safe Ex.leafA0 0 Ex.σcrd 0 1 1 7 Ex.σcrd_inv Ex.σcrd_ptr (by decide) (by decide)
    Ex.σcrd_index (by decide) (by decide) (by decide)
    (writeCrdAssembly_namesDistinct Ex.leafA0 (by decide))

/-- G2, no dense level, `pos` of the next sparse layer (bonus 1): cursor 0, capacity 1 -/
example : ∃ o b' c', exec 0 (writePosAllocation Ex.leafA0).finalize (Ex.σpos 0) = .ok o ∧ o.ret = none ∧
    GrowPost (Ex.σpos 0) o.st "A_1_pos" "A_1_pos_capacity" .int 0 1 b' c' ∧ 0 + 1 < c' := by
  obtain ⟨o, b', c', e, r, g, _, h⟩ := writePosAllocation_nodense_safe Ex.leafA0 0 (Ex.σpos 0) 0 1 0
    Ex.leafA0_nodense (Ex.σpos_inv 0) (Ex.σpos_ptr 0) (by decide) (by decide) (by decide)
  exact ⟨o, b', c', e, r, g, h (by decide)⟩

/-- G2, no dense level, `vals` (bonus 0): cursor 1, capacity 1 -/
example : ∃ o b' c', exec 0 (writePosAllocation Ex.leafA1).finalize Ex.σvals = .ok o ∧ o.ret = none ∧
    GrowPost Ex.σvals o.st "A_vals" "A_vals_capacity" .float 0 1 b' c' ∧ 1 + 0 < c' := by
  obtain ⟨o, b', c', e, r, g, _, h⟩ := writePosAllocation_nodense_safe Ex.leafA1 0 Ex.σvals 0 1 1
    Ex.leafA1_nodense Ex.σvals_inv Ex.σvals_ptr (by decide) (by decide) (by decide)
  exact ⟨o, b', c', e, r, g, h (by decide)⟩

/-- G2, one dense level of size 2 below, `vals` (bonus 0): cursor 1, capacity 1 — new capacity 4 -/
example : ∃ o b' c', exec 0 (writePosAllocation Ex.leafB0).finalize Ex.σdvals = .ok o ∧ o.ret = none ∧
    GrowPost Ex.σdvals o.st "B_vals" "B_vals_capacity" .float 0 1 b' c' ∧ c' = 4 := by
  obtain ⟨o, b', c', e, r, g, hc, _⟩ := writePosAllocation_dense_safe Ex.leafB0 0 Ex.σdvals 0 1 1 [2]
    (by rw [Ex.leafB0_dense]; simp) Ex.σdvals_inv Ex.σdvals_ptr (by decide) Ex.σdvals_dims Ex.prodsOK_two
    (by decide) (by decide) (by decide)
  exact ⟨o, b', c', e, r, g, by rw [hc, Ex.leafB0_bonus]; decide⟩

/-- G2, one dense level of size 2 below, `pos` of the next sparse layer (bonus 1): new capacity 5 -/
example : ∃ o b' c', exec 0 (writePosAllocation Ex.leafC0).finalize Ex.σdpos = .ok o ∧ o.ret = none ∧
    GrowPost Ex.σdpos o.st "C_2_pos" "C_2_pos_capacity" .int 0 1 b' c' ∧ c' = 5 := by
  obtain ⟨o, b', c', e, r, g, hc, _⟩ := writePosAllocation_dense_safe Ex.leafC0 0 Ex.σdpos 0 1 1 [2]
    (by rw [Ex.leafC0_dense]; simp) Ex.σdpos_inv Ex.σdpos_ptr (by decide) Ex.σdpos_dims Ex.prodsOK_two
    (by decide) (by decide) (by decide)
  exact ⟨o, b', c', e, r, g, by rw [hc, Ex.leafC0_bonus]; decide⟩

/-- G3 at layer 0 (`prev` is the literal 0) -/
example : ∃ o, exec 0 (writePosAssembly Ex.leafA0).finalize Ex.σasm = .ok o ∧ o.ret = none ∧
    o.st.heap[0]? = some ⟨.int, [some (.int 0), some (.int 0)], .output, true⟩ := by
  obtain ⟨o, e, r, s, _⟩ := writePosAssembly_safe Ex.leafA0 0 Ex.σasm 0 2 0 0 _ Ex.σasm_inv0 rfl
    Ex.σasm_prev0 (by decide) (by decide) Ex.σasm_ptr0 (by decide) (by decide)
  exact ⟨o, e, r, by rw [s]; rfl⟩

/-- G3 at layer 1 (`prev` is the cursor `p_0_A_0` of layer 0) -/
example : ∃ o, exec 0 (writePosAssembly Ex.leafA1).finalize Ex.σasm = .ok o ∧ o.ret = none ∧
    o.st.heap[1]? = some ⟨.int, [some (.int 0), some (.int 1)], .output, true⟩ := by
  obtain ⟨o, e, r, s, _⟩ := writePosAssembly_safe Ex.leafA1 0 Ex.σasm 1 2 1 0 _ Ex.σasm_inv1 rfl
    Ex.σasm_prev1 (by decide) (by decide) Ex.σasm_ptr1 (by decide) (by decide)
  exact ⟨o, e, r, by rw [s]; rfl⟩

/-- G4: initial capacity 1, three appends — the array is reallocated twice (1 → 2 → 4) -/
example : ∃ o b' c', exec 0 (.block (crdInit Ex.leafA0 1 ++ appendProg Ex.leafA0 [7, 8, 9]) none) Ex.σinit
      = .ok o ∧ o.ret = none ∧
    ArrInv o.st "A_0_crd" "A_0_crd_capacity" .int b' c' ∧ IntVar o.st "p_0_A_0" 3 ∧ 3 ≤ c' ∧
    Holds o.st b' [7, 8, 9] := by
  obtain ⟨o, b', c', e, r, h1, h2, h3, h4, _⟩ := append_from_init_safe Ex.leafA0 0 Ex.σinit 1 [7, 8, 9]
    (writeCrdAssembly_namesDistinct Ex.leafA0 (by decide)) ⟨_, _, rfl, rfl⟩ rfl rfl ⟨0, _, rfl, rfl, rfl⟩
    (by decide) (by decide) (by decide) (by decide)
  exact ⟨o, b', c', e, r, h1, h2, h3, h4⟩

end TV.Growth
