import TensoraVerif.Lemmas.MergeLoop
import TensoraVerif.Lemmas.MergeTrace
import TensoraVerif.Lemmas.MergeInit
import TensoraVerif.Lemmas.MergeNames
import TensoraVerif.Lemmas.MergeGhost
import TensoraVerif.Lemmas.MergeLower
import TensoraVerif.Lemmas.MergeExamples
import TensoraVerif.Lemmas.MergeCex

/-!
C05 ("a coordinate is only read from a level inside the loop that proves its cursor < end", "every loop
advances a cursor", "terminates"), C02 ("coordinates … strictly increasing … because operands are co-iterated
by min()") and C16 ("iterations depend only on stored entries"): Hoare-style theorems ON THE MACHINE
(`Model/Machine.lean`) about the SKELETON of the co-iteration loop `lower` emits,

```
while (p_l1 < p_l1_end && … && p_lk < p_lk_end) {
  int i_l1 = crd_l1[p_l1]; …; int i_lk = crd_lk[p_lk];
  int i = min(i_l1, …, i_lk);
  MID                                   // dense pointer computations; if (i_l == i && …) {…} else if …
  p_l1 += (int32_t)(i_l1 == i); …; p_lk += (int32_t)(i_lk == i);
}
```

parametric in the list of leaves (hence in all names), in the index name and in the statements `MID`, which
only have to satisfy a frame condition (`BodyFrame`, or `MidOK` with ghost state).

Vocabulary (`Lemmas/MergePure.lean`, `MergeBasic.lean`, `MergeBody.lean`):
* `Cur` — per leaf: the `Leaf` (names), the heap block of its `crd` array, the stored coordinates
  `crd : Nat → Int`, cursor `p`, end `e`; `CurInv σ c` — the state invariant of the leaf; `MergeInv σ cs i` —
  `CurInv` for all leaves plus "`i_l` and `i` are undeclared or `int`";
* `mergeLoopL L i mid` — the skeleton, built from `andJoin`, `minJoin`, `valueFromCrd`, `sparseEndName`,
  `crdName`, `Leaf.ptr`, `increment`, `declAssignE`, `.b2i` exactly as `lower` does;
* `mergeTrace cs` / `mergeFinal cs` — the pure merge: the values taken by `i`, the cursors at exit;
  `curMeasure cs = Σ (e_l − p_l)`.

* M0 `lower_emits_mergeLoop`; M1 `merge_loop_safe`, `merge_loop_safe_ghost`; M2 `merge_loop_increasing`,
  `merge_step_increasing`, `merge_min_attained`, `merge_trace_stored`, `merge_loop_ghost_array`;
  M3 `merge_loop_single`, `merge_loop_dim_dead`; M4 `writeSparseInit_safe`;
  names `merge_names_generated`; counterexample `merge_frame_needs_index`.
-/
namespace TV.Merge
open TV.IR TV.Gen TV.Graph TV.Growth

set_option linter.unusedSectionVars false
variable {F : Type} [FloatOps F]

/-- **M1 (safety, termination, progress).** Let the leaves `cs ≠ []` have pairwise distinct names, let the
state satisfy the invariant `MergeInv` (every `crd` variable points to a live `int` block; cursor and end are
`int`s with `0 ≤ p_l ≤ e_l ≤ len`, `e_l < 2^31`; the cells `[p_l, e_l)` hold 32-bit coordinates; `i_l`, `i`
are undeclared or `int`), and let `mid` satisfy the frame condition `BodyFrame B K` (it needs fuel `B` and
iterates at most `K` times itself). Then for every `fuel ≥ Σ (e_l − p_l) + 1 + B` the loop runs WITHOUT ERROR
(so every `crd_l[p_l]` load was in bounds and initialised, no int32 overflow) and without `return`; at exit
the invariant holds for the final cursors `mergeFinal cs` (same leaves, blocks, coordinates and ends, cursors
not smaller: `Reach`), AT LEAST ONE CURSOR EQUALS ITS END, the loop body ran `(mergeTrace cs).length ≤
Σ (e_l − p_l)` times, and `o.iters` — which also counts the iterations of loops nested in `mid` — lies between
that number and `(K + 1)` times it; for a loop-free `mid` (`K = 0`), `o.iters ≤ Σ (e_l − p_l)`.
Sortedness of the segments is NOT needed here. -/
theorem merge_loop_safe (B K : Nat) (cs : List Cur) (i : String) (mid : List (Stmt F)) (fuel : Nat)
    (σ : State F) (hne : cs ≠ []) (hnames : (curNames cs i).Nodup) (hinv : MergeInv σ cs i)
    (hbody : BodyFrame B K cs i mid) (hfuel : curMeasure cs + 1 + B ≤ fuel) :
    ∃ o, exec fuel (mergeLoopL (cs.map Cur.leaf) i mid) σ = .ok o ∧ o.ret = none ∧
      MergeInv o.st (mergeFinal cs) i ∧ Reach cs (mergeFinal cs) ∧ (∃ c ∈ mergeFinal cs, c.p = c.e) ∧
      (mergeTrace cs).length ≤ curMeasure cs ∧
      (mergeTrace cs).length ≤ o.iters ∧ o.iters ≤ (mergeTrace cs).length * (K + 1) ∧
      (K = 0 → o.iters ≤ curMeasure cs) := by
  obtain ⟨o, e, r, inv, hr, hx, hl, lo, hi, _⟩ := merge_loop_main (B := B) (K := K)
    (P := fun _ _ => True) cs i mid fuel σ [] hne (NamesOK.of_nodup hnames) hinv trivial
    (fun _ _ _ _ _ _ _ => trivial) (hbody.midOK _) hfuel
  refine ⟨o, e, r, inv, hr, hx, hl, lo, hi, ?_⟩
  intro hK; subst hK; omega

/-- **M1 with ghost state** (the form everything else is derived from). As `merge_loop_safe`, with the name
hypothesis in the weaker form `NamesOK` (which does not ask the `crd` names of two leaves to differ: `B(i) *
B(i)`), and with a user predicate `P tr σ` ("the index has taken the values `tr` so far") that the skeleton's
own writes do not disturb (`GhostStable`) and that `mid` extends by the current value of `i` (`MidOK`; the
bound `N = |tr0| + Σ (e_l − p_l)` tells `mid` how much room it may need). Then at exit `P (tr0 ++ mergeTrace
cs)` holds: the values taken by `i`, in order, are exactly `mergeTrace cs`. -/
theorem merge_loop_safe_ghost {B K : Nat} {P : List Int → State F → Prop} (cs : List Cur) (i : String)
    (mid : List (Stmt F)) (fuel : Nat) (σ : State F) (tr0 : List Int)
    (hne : cs ≠ []) (hnames : NamesOK cs i) (hinv : MergeInv σ cs i)
    (hP : P tr0 σ) (hstab : GhostStable P cs i)
    (hmid : MidOK B K (tr0.length + curMeasure cs) P cs i mid)
    (hfuel : curMeasure cs + 1 + B ≤ fuel) :
    ∃ o, exec fuel (mergeLoopL (cs.map Cur.leaf) i mid) σ = .ok o ∧ o.ret = none ∧
      MergeInv o.st (mergeFinal cs) i ∧ Reach cs (mergeFinal cs) ∧ (∃ c ∈ mergeFinal cs, c.p = c.e) ∧
      (mergeTrace cs).length ≤ curMeasure cs ∧
      (mergeTrace cs).length ≤ o.iters ∧ o.iters ≤ (mergeTrace cs).length * (K + 1) ∧
      P (tr0 ++ mergeTrace cs) o.st :=
  merge_loop_main cs i mid fuel σ tr0 hne hnames hinv hP hstab hmid hfuel

/-- **the load is in bounds**: under the invariant and the loop test `p_l < e_l`, the expression
`crd_l[p_l]` evaluates, without error, to the stored coordinate -/
theorem merge_load_in_bounds {σ : State F} {c : Cur} (h : CurInv σ c) (hlt : c.p < c.e) :
    evalE σ (.idx (.var c.crdN) (.var c.ptrN)) = .ok (.int (c.crd c.p)) :=
  evalE_load h hlt

/-- **M2 (sorted because co-iterated by `min`).** If the segment `[p_l, e_l)` of every leaf holds strictly
increasing coordinates, the sequence of values taken by the loop index is strictly increasing. -/
theorem merge_loop_increasing (cs : List Cur) (hne : cs ≠ []) (hs : ∀ c ∈ cs, c.Sorted) :
    (mergeTrace cs).Pairwise (· < ·) :=
  mergeRun_increasing _ cs hne hs

/-- **M2, one iteration to the next.** If after the increments the loop test still holds, the next value of
`i` is strictly greater than the current one. -/
theorem merge_step_increasing (cs : List Cur) (hne : cs ≠ []) (hs : ∀ c ∈ cs, c.Sorted)
    (hact' : curActive (cs.map (Cur.adv (curMin cs))) = true) :
    curMin cs < curMin (cs.map (Cur.adv (curMin cs))) :=
  curMin_adv_gt hne hs hact'

/-- **M2, the branch is never empty.** `i = min` is a lower bound of all `i_l = crd_l[p_l]`, and some leaf
attains it: the set of leaves with `i_l == i` is nonempty (and it is exactly the set of cursors that
advance, each by exactly 1; the others do not move). -/
theorem merge_min_attained (cs : List Cur) (hne : cs ≠ []) :
    (∀ c ∈ cs, curMin cs ≤ c.crd c.p) ∧ (∃ c ∈ cs, c.crd c.p = curMin cs) ∧
    (∀ c : Cur, (c.adv (curMin cs)).p = if c.crd c.p = curMin cs then c.p + 1 else c.p) :=
  ⟨fun _ hc => curMin_le hc, curMin_attained hne, fun c => adv_p_eq _ c⟩

/-- **C16: iterations depend only on stored entries.** Every value taken by the loop index is a coordinate
stored in the segment `[p_l, e_l)` of some leaf. -/
theorem merge_trace_stored (cs : List Cur) (hne : cs ≠ []) :
    ∀ x ∈ mergeTrace cs, ∃ c ∈ cs, ∃ j, c.p ≤ j ∧ j < c.e ∧ c.crd j = x :=
  mergeRun_mem_stored _ cs hne

/-- **M2, ghost form.** With BODY := `out[k] = i; k = k + 1;` (a designated output array of `cap` cells in a
block that is none of the `crd` blocks, a counter that is none of the skeleton's names), the loop runs
without error, performs exactly `(mergeTrace cs).length ≤ Σ (e_l − p_l)` iterations, and afterwards the
array holds `tr0 ++ mergeTrace cs` — the values of `i`, one per iteration, in order. With
`merge_loop_increasing` the array is strictly increasing when the inputs are. -/
theorem merge_loop_ghost_array (out k : String) (ob cap : Nat) (cs : List Cur) (i : String) (fuel : Nat)
    (σ : State F) (tr0 : List Int) (hne : cs ≠ [])
    (hnames : (k :: out :: curNames cs i).Nodup) (hblk : ∀ c ∈ cs, c.blk ≠ ob)
    (hroom : tr0.length + curMeasure cs ≤ cap) (hcap : (cap : Int) < 2147483648)
    (hinv : MergeInv σ cs i) (hP : GhostArr out k ob cap tr0 σ) (hfuel : curMeasure cs + 1 ≤ fuel) :
    ∃ o, exec fuel (mergeLoopL (cs.map Cur.leaf) i (ghostBody out k i)) σ = .ok o ∧ o.ret = none ∧
      MergeInv o.st (mergeFinal cs) i ∧ Reach cs (mergeFinal cs) ∧ (∃ c ∈ mergeFinal cs, c.p = c.e) ∧
      o.iters = (mergeTrace cs).length ∧ (mergeTrace cs).length ≤ curMeasure cs ∧
      GhostArr out k ob cap (tr0 ++ mergeTrace cs) o.st :=
  merge_loop_ghost_run_nodup out k ob cap cs i fuel σ tr0 hne hnames hblk hroom hcap hinv hP hfuel

/-- **M3 (work follows sparsity, one operand).** For a single leaf the loop visits exactly the stored
coordinates `crd[p], …, crd[e-1]` in order (`i = crd[p + n]` in iteration `n`), the body runs exactly
`e − p` times — with a loop-free `mid`, `o.iters = e − p` — and the cursor ends at `e`. No hypothesis on the
dimension of `i` appears: the number of iterations depends on the stored segment only. -/
theorem merge_loop_single (B : Nat) (c : Cur) (i : String) (mid : List (Stmt F)) (fuel : Nat)
    (σ : State F) (hnames : (curNames [c] i).Nodup) (hinv : MergeInv σ [c] i)
    (hbody : BodyFrame B 0 [c] i mid) (hfuel : (c.e - c.p) + 1 + B ≤ fuel) :
    ∃ o, exec fuel (mergeLoopL [c.leaf] i mid) σ = .ok o ∧ o.ret = none ∧
      MergeInv o.st [{ c with p := c.e }] i ∧ o.iters = c.e - c.p ∧
      mergeTrace [c] = (List.range' c.p (c.e - c.p)).map c.crd ∧
      (∀ n, n < c.e - c.p → (mergeTrace [c])[n]? = some (c.crd (c.p + n))) := by
  have hle : c.p ≤ c.e := (hinv.cur c List.mem_cons_self).le
  have hm : curMeasure [c] = c.e - c.p := by simp [curMeasure]
  obtain ⟨o, e, r, inv, _, _, _, lo, hi, _⟩ := merge_loop_safe B 0 [c] i mid fuel σ (by simp) hnames hinv
    hbody (by rw [hm]; exact hfuel)
  rw [mergeFinal_single c hle] at inv
  rw [mergeTrace_single_length c hle] at lo hi
  exact ⟨o, e, r, inv, by omega, mergeTrace_single c hle, fun n hn => mergeTrace_single_get c hle n hn⟩

/-- **M3, no `_dim` variable is read.** If the dimension variable of the loop index is dead in `mid`, it is
dead (`Stmt.deadVar`: never read, never assigned) in the whole loop; more generally every variable that is
none of the skeleton's names and is dead in `mid` is dead in the loop (`mergeLoopL_deadVar`). -/
theorem merge_loop_dim_dead (L : List Leaf) (i : String) (mid : List (Stmt F))
    (hmid : deadVarL (dimName i) mid = true) : (mergeLoopL L i mid).deadVar (dimName i) = true :=
  mergeLoopL_dim_dead L i mid hmid

/-- **M4.** `int p_l = pos_l[prev]; int p_l_end = pos_l[prev + 1];` From a well-formed input level — the `pos`
variable points to a live `int` block whose cells `prev`, `prev + 1` (`prev` = the parent position, `0 ≤
prev`, `prev + 1 < 2^31`) are initialised and hold `c.p ≤ c.e`, with `c.e ≤ len crd`, `c.e < 2^31`, and the
cells `[c.p, c.e)` of the live `int` block of `crd` hold 32-bit coordinates — and with cursor and end
undeclared or `int`, the fragment runs without error for every fuel and establishes `CurInv` (M1's invariant
for that leaf). It writes only the cursor and the end. The names it needs distinct are distinct for EVERY
leaf (`InitNames.of_leaf`), so there is no name hypothesis. -/
theorem writeSparseInit_safe (c : Cur) (fuel : Nat) (σ : State F) (pb : Nat) (prev : Int)
    (hpos : PosOK σ c pb prev)
    (hcrd : PtrVar σ c.crdN c.blk) (hle : c.p ≤ c.e) (hlt : (c.e : Int) < 2147483648)
    (hcells : ∃ blk, σ.heap[c.blk]? = some blk ∧ blk.live = true ∧ blk.ty = .int ∧ c.e ≤ blk.cells.length ∧
      ∀ j, c.p ≤ j → j < c.e → blk.cells[j]? = some (some (.int (c.crd j))))
    (hrng : ∀ j, c.p ≤ j → j < c.e → -2147483648 ≤ c.crd j ∧ c.crd j < 2147483648)
    (hd1 : DeclOK σ c.ptrN) (hd2 : DeclOK σ c.endN) :
    ∃ o, exec fuel (writeSparseInit c.leaf).finalize σ = .ok o ∧ o.ret = none ∧ o.iters = 0 ∧
      CurInv o.st c ∧
      (∀ y, y ≠ c.ptrN → y ≠ c.endN → lookupVar o.st.vars y = lookupVar σ.vars y) ∧
      o.st.heap = σ.heap ∧ o.st.tensors = σ.tensors := by
  obtain ⟨σ', ⟨o, e, r, s, it⟩, inv, fr, hh, ht⟩ :=
    writeSparseInit_run c fuel σ pb prev hpos (InitNames.of_leaf c) hcrd hle hlt hcells hrng hd1 hd2
  subst s
  exact ⟨o, e, r, it, inv, fr, hh, ht⟩

/-- **names.** The generated names satisfy `NamesOK` for every list of leaves with pairwise distinct
`(tensor id, layer)` and every index name without `'_'`. -/
theorem merge_names_generated (cs : List Cur) (i : String) (hi : '_' ∉ i.toList)
    (hd : cs.Pairwise fun a b => ¬ (a.leaf.tensor.id = b.leaf.tensor.id ∧ a.leaf.layer = b.leaf.layer)) :
    NamesOK cs i :=
  NamesOK.of_leaves cs i hi hd

/-- **M0 (the skeleton is what `lower` emits).** If `lower` succeeds on an iteration node over `i` whose loop
is sparse (`iterSparse`), the emitted lines are `pre ++ loops ++ post`, where `loops` has, in order, one
statement per sub-node that is not skipped, and the statement of sub-node `sub` is EXACTLY
`mergeLoopL (sparse leaves of sub) i (denseComputations … ++ [branchJoin leaves])`. (General `lower`, every
sub-node, dense leaves and dense output included: their pointer computations are part of `mid`.) -/
theorem lower_emits_mergeLoop (ofRat : Rat → F) (k : Kind) (n : Nat) (i : String) (o : Option Leaf)
    (nx : IGraph) (out : Output) (b : SB F) (hk : (!k.isCompute && !out.hasSparseLayer) = false)
    (hsp : iterSparse (.iter i o nx) = true)
    (h : lower ofRat (n + 1) (.iter i o nx) out k = .ok b) :
    ∃ pre post loops, b.lines = pre ++ loops ++ post ∧
      PairsWith (fun sub s => ∃ leaves, s = mergeLoopL (nodeContext sub).sparseLeaves i
          (denseComputations (maybeDenseOut o out ++ (nodeContext sub).denseLeaves) i
            (IGraph.iter i o nx).laterIndexes ++ [branchJoin leaves]))
        ((generateSubgraphs (.iter i o nx)).filter fun sub => !skipped (.iter i o nx) sub) loops :=
  lower_iter_mergeLoops ofRat k n i o nx out b hk hsp h

/-- **counterexample to the frame condition as worded in the brief** ("BODY preserves the cursor/end/crd
variables and the crd blocks — everything else may change"). `i = -1;` satisfies that condition (first
conjunct), yet with it the loop over the single leaf `B` (segment `[0, 3)`) never advances its cursor and
runs out of fuel, for every fuel, from every state satisfying the invariant. This is why `BodyFrame`/`MidOK`
also ask BODY to preserve `i` and the `i_l`. -/
theorem merge_frame_needs_index :
    (∀ (fuel : Nat) (σ : State Int) (v : Int), IntVar σ "i" v →
      ∃ o, execL fuel Ex.badMid σ = .ok o ∧ o.ret = none ∧ o.iters = 0 ∧ IntVar o.st "i" (-1) ∧
        (∀ y, y ≠ "i" → lookupVar o.st.vars y = lookupVar σ.vars y) ∧ o.st.heap = σ.heap ∧
        o.st.tensors = σ.tensors) ∧
    (∀ (fuel : Nat) (σ : State Int), MergeInv σ [Ex.cB 0] "i" →
      exec fuel (mergeLoopL [Ex.lB] "i" Ex.badMid) σ = .error .fuel) ∧
    MergeInv Ex.σ0 [Ex.cB 0] "i" :=
  ⟨Ex.badMid_frame, Ex.bad_loop_diverges,
    ⟨fun c hc => Ex.inv0.cur c (by simp only [List.mem_cons, List.not_mem_nil, or_false] at hc ⊢; exact .inl hc),
     fun c hc => Ex.inv0.val c (by simp only [List.mem_cons, List.not_mem_nil, or_false] at hc ⊢; exact .inl hc),
     Ex.inv0.idx⟩⟩

/-! ### non-vacuity -/

open Ex in
/-- **two leaves, run to completion.** `B` stores 0, 2, 5 and `C` stores 2, 3. The loop over `{B, C}` followed
by the loop over `{B}` (the loops `lower` emits for the sub-nodes `{B, C}` and `{B}` of a union; the one over
`{C}` would find `C` exhausted), with the ghost BODY, run without error from `σ0` with fuel 10: 3 + 1 = 4
iterations in total, and the output array holds the values taken by `i`: 0, 2, 3, 5. -/
theorem merge_example_two_leaves :
    ∃ o, exec 10 (.block [mergeLoopL [lB, lC] "i" (ghostBody "out" "k" "i"),
        mergeLoopL [lB] "i" (ghostBody "out" "k" "i")] none) σ0 = .ok o ∧ o.ret = none ∧ o.iters = 4 ∧
      GhostArr "out" "k" 2 5 [0, 2, 3, 5] o.st ∧ MergeInv o.st [cB 3] "i" := by
  obtain ⟨o1, e1, r1, inv1, _, _, it1, _, g1⟩ := merge_loop_ghost_array "out" "k" 2 5 [cB 0, cC 0] "i" 10
    σ0 [] (by simp) names_BC
    (by intro c hc; simp only [List.mem_cons, List.not_mem_nil, or_false] at hc; rcases hc with rfl | rfl <;> decide)
    (by decide) (by decide) inv0 ghost0 (by decide)
  rw [trace_BC] at it1 g1
  rw [final_BC] at inv1
  have inv1' : MergeInv o1.st [cB 2] "i" :=
    ⟨fun c hc => inv1.cur c (by simp only [List.mem_cons, List.not_mem_nil, or_false] at hc ⊢; exact .inl hc),
     fun c hc => inv1.val c (by simp only [List.mem_cons, List.not_mem_nil, or_false] at hc ⊢; exact .inl hc),
     inv1.idx⟩
  obtain ⟨o2, e2, r2, inv2, _, _, it2, _, g2⟩ := merge_loop_ghost_array "out" "k" 2 5 [cB 2] "i" 10
    o1.st ([] ++ [0, 2, 3]) (by simp) names_B
    (by intro c hc; simp only [List.mem_cons, List.not_mem_nil, or_false] at hc; subst hc; decide)
    (by decide) (by decide) inv1' g1 (by decide)
  rw [trace_B] at it2 g2
  rw [final_B] at inv2
  obtain ⟨o, e, r, s, it⟩ := RunsN.block (c := none)
    (RunsLN.cons (s := mergeLoopL [lB, lC] "i" (ghostBody "out" "k" "i")) ⟨o1, e1, r1, rfl, it1⟩
      (RunsLN.cons (s := mergeLoopL [lB] "i" (ghostBody "out" "k" "i")) ⟨o2, e2, r2, rfl, it2⟩
        (RunsLN.nil _ _)))
  refine ⟨o, e, r, by rw [it]; rfl, ?_, ?_⟩
  · rw [s]; exact g2
  · rw [s]; exact inv2

open Ex in
/-- the hypotheses of `merge_loop_safe`, `merge_loop_increasing`, `merge_trace_stored` are satisfiable: the
two-leaf instance with the empty BODY; it runs 3 times (the values 0, 2, 3) and `C` is exhausted -/
example : ∃ o, exec 6 (mergeLoopL [lB, lC] "i" ([] : List (Stmt Int))) σ0 = .ok o ∧ o.ret = none ∧
    MergeInv o.st [cB 2, cC 2] "i" ∧ o.iters = 3 ∧ mergeTrace [cB 0, cC 0] = [0, 2, 3] ∧
    (mergeTrace [cB 0, cC 0]).Pairwise (· < ·) := by
  have hn : (curNames [cB 0, cC 0] "i").Nodup := by decide
  obtain ⟨o, e, r, inv, _, _, _, lo, hi, _⟩ := merge_loop_safe 0 0 [cB 0, cC 0] "i" [] 6 σ0 (by simp) hn inv0
    (BodyFrame.nil _ _) (by decide)
  rw [trace_BC] at lo hi
  refine ⟨o, e, r, inv, ?_, trace_BC, merge_loop_increasing _ (by simp) ?_⟩
  · simp at lo hi; omega
  · intro c hc
    simp only [List.mem_cons, List.not_mem_nil, or_false] at hc
    rcases hc with rfl | rfl
    · exact sorted_B 0
    · exact sorted_C 0

open Ex in
/-- `merge_loop_single` on `B` alone: exactly 3 iterations, visiting 0, 2, 5 -/
example : ∃ o, exec 4 (mergeLoopL [lB] "i" ([] : List (Stmt Int))) σ0 = .ok o ∧ o.iters = 3 ∧
    mergeTrace [cB 0] = [0, 2, 5] := by
  have hn : (curNames [cB 0] "i").Nodup := by decide
  obtain ⟨o, e, _, _, it, tr, _⟩ := merge_loop_single 0 (cB 0) "i" [] 4 σ0 hn merge_frame_needs_index.2.2
    (BodyFrame.nil _ _) (by decide)
  exact ⟨o, e, it, by rw [tr]; decide⟩

open Ex in
/-- `writeSparseInit_safe` on a concrete well-formed level: `pos = [0, 3]`, `crd = [0, 2, 5]` -/
example : ∃ o, exec 0 (writeSparseInit lB).finalize σinit = .ok o ∧ CurInv o.st (cB 0) := by
  obtain ⟨o, e, _, _, inv, _⟩ := writeSparseInit_safe (cB 0) 0 σinit 1 0 posOK_init ⟨_, _, rfl, rfl, rfl⟩
    (by decide) (by decide) inv_B0.cells inv_B0.rng (declOK_of_none rfl) (declOK_of_none rfl)
  exact ⟨o, e, inv⟩

/-- `merge_loop_dim_dead` applies to the ghost BODY: `i_dim` is dead in the whole loop -/
example : (mergeLoopL [Ex.lB, Ex.lC] "i" (ghostBody (F := Int) "out" "k" "i")).deadVar (dimName "i") = true :=
  merge_loop_dim_dead _ _ _ (by decide)

/-- `merge_names_generated` on the two leaves -/
example : NamesOK [Ex.cB 0, Ex.cC 0] "i" :=
  merge_names_generated _ _ (by decide) (by
    simp only [List.pairwise_cons, List.mem_cons, List.not_mem_nil, or_false, forall_eq, List.Pairwise.nil,
      and_true, false_imp_iff, implies_true]
    decide)

end TV.Merge
