import TensoraVerif.Lemmas.StoreCertPeep
import TensoraVerif.Lemmas.StoreCertNames
import TensoraVerif.Lemmas.StoreCertExamples
import TensoraVerif.Lemmas.StoreCertPipeline
import TensoraVerif.Model.FloatLaws

/-!
C05 (stores) for *every* kernel the lowering pass can generate: WHERE a generated kernel stores.

The certificate `Stmt.storeCert okVar okArr okAttr out` (`Lemmas/StoreCert.lean`) requires of every
`.assign target _`, at any depth, that `target` is
  `.var x` with `okVar x`  |  `.idx (.var arr) _` with `okArr arr`  |
  `.attr (.var out) "vals"` or `.idx (.idx (.attr (.var out) "indices") _) _`, only if `okAttr`.

With `T := outTensor a formats` (the output tensor exactly as `generateIr` computes it):

* **T1** `generateIr_store_targets` (all kinds) — if the output leaves of the graph belong to `T`
  (`outLeavesOf T g`; needed: `store_targets_needs_output_leaves`), every array store of the kernel
  goes through one of the array variables of `T`: `okOutArr T` = membership in the explicit finite
  list `outArrays T` = `<T>_vals`, `bucket_<T.id>_<n>_…_<L-1>` (`n ≤ L = T.modes.length`),
  `<T>_<l>_pos`, `<T>_<l>_crd` (`l < L`); attribute stores only hand arrays over to the struct of
  `T`, and only in assembling kernels (`okAttr = k.isAssemble`). `okVar` is `anyVar` (all locals).
  `generateIr_store_targets_pipeline` / `_best`: the hypothesis holds for every candidate graph of
  `toIterationGraphs a formats`, in particular for `bestAlgorithm a formats` — so T1 is unconditional
  for the graphs the compiler builds itself, and there `T.name = a.tname` (`outTensor_of_graphs`).
  Without a format entry for `a.tname`, `T` is the default tensor (name `""`), not `a.tname`:
  `store_targets_name_is_outTensor`.
* **T2** `generateIr_compute_structure_untouched` — a `compute` kernel, for EVERY graph, stores only
  into local variables, `<T>_vals[…]` and `bucket_<T.id>…[…]` (`okOutValArr T`), never into a
  `pos`/`crd` array and never into a tensor struct (`okAttr = false`).
* **T3** `input_arrays_disjoint` — for `'_'`-free names, the arrays unpacked from a tensor
  `n ≠ T.name`, `n ≠ "bucket"` are rejected by `okOutArr T`; `bucket_name_collision` shows that the
  side condition `n ≠ "bucket"` is needed (output `pos`, input `bucket`: `bucket_0_pos`).
* **T4** `peepS_storeCert` — the peephole optimiser preserves the certificate; `…_peep` are T1/T2 for
  the optimised body `peepS f.body`.
-/
namespace TV.Gen
open TV.IR TV.Graph
variable {F : Type} [FloatOps F]

/-! ### T1 -/

omit [FloatOps F] in
/-- **T1.** Store targets of every generated kernel whose graph has output leaves in the output
tensor. -/
theorem generateIr_store_targets (ofRat : Rat → F) (cap : Option Int) (a : Alg.DAssign) (formats : Formats)
    (g : IGraph) (k : Kind) (f : Func F)
    (hg : outLeavesOf (outTensor a formats) g = true)
    (h : generateIr ofRat cap a formats g k = .ok f) :
    f.body.storeCert anyVar (okOutArr (outTensor a formats)) k.isAssemble (outTensor a formats).name = true := by
  refine generateIr_sc (okOutArr (outTensor a formats)) k.isAssemble
    (fun l => decide (l.tensor = outTensor a formats)) ofRat cap a formats g k f
    (okOutValArr_le _ _ (okOutValArr_vals _)) (fun n => okOutValArr_le _ _ (okOutValArr_bucket _ n))
    ?_ ?_ (fun hk => hk) hg h
  · intro _ l hl hm
    have hl : l.tensor = outTensor a formats := by simpa using hl
    have hlt : l.layer < (outTensor a formats).modes.length := by
      rw [← hl]; exact lt_of_compressed _ _ hm
    rw [hl]
    exact ⟨okOutArr_crd _ _ hlt, okOutArr_pos _ _ hlt⟩
  · intro _ i hi _
    exact okOutArr_pos _ _ hi

omit [FloatOps F] in
/-- the name and the modes of the output tensor, when the format table has an entry for it (otherwise
`outTensor a formats` is the default `TensorId`, whose name is `""`) -/
theorem outTensor_of_format (a : Alg.DAssign) (formats : Formats) (modes : List Mode) (ord : List Nat)
    (h : formats.find? (·.1 == a.tname) = some (a.tname, modes, ord)) :
    (outTensor a formats).name = a.tname ∧ (outTensor a formats).id = "0_" ++ a.tname ∧
      (outTensor a formats).modes = modes := by
  simp only [outTensor, tensorId, h]
  exact ⟨rfl, rfl, rfl⟩

/-- **T1 needs its hypothesis** (closed counterexample to T1 for arbitrary graphs): for
`a(i) = 1` with `a`, `b` compressed and the graph whose output leaf is layer 0 of the input tensor `b`,
the `assemble` kernel is generated and it stores into `b_0_crd[…]` / `b_0_pos[…]`. -/
theorem store_targets_needs_output_leaves :
    ∃ f, generateIr (F := Int) StoreExamples.ofR none StoreExamples.asg StoreExamples.fm StoreExamples.badGraph
        .assemble = .ok f ∧
      f.body.storeCert anyVar (okOutArr (outTensor StoreExamples.asg StoreExamples.fm)) true
        (outTensor StoreExamples.asg StoreExamples.fm).name = false :=
  StoreExamples.generateIr_bad

omit [FloatOps F] in
/-- **T1 for the compiler's own graphs**: no hypothesis on the graph is needed when it is one of the
candidates enumerated by `toIterationGraphs` -/
theorem generateIr_store_targets_pipeline (ofRat : Rat → F) (cap : Option Int) (a : Alg.DAssign)
    (formats : Formats) (gs : List IGraph) (g : IGraph) (k : Kind) (f : Func F)
    (hgs : toIterationGraphs a formats = .ok gs) (hg : g ∈ gs)
    (h : generateIr ofRat cap a formats g k = .ok f) :
    f.body.storeCert anyVar (okOutArr (outTensor a formats)) k.isAssemble (outTensor a formats).name = true :=
  generateIr_store_targets ofRat cap a formats g k f (outLeavesOf_toIterationGraphs a formats gs hgs g hg) h

omit [FloatOps F] in
/-- … in particular for the graph chosen by `bestAlgorithm` -/
theorem generateIr_store_targets_best (ofRat : Rat → F) (cap : Option Int) (a : Alg.DAssign)
    (formats : Formats) (g : IGraph) (k : Kind) (f : Func F)
    (hg : bestAlgorithm a formats = .graph g)
    (h : generateIr ofRat cap a formats g k = .ok f) :
    f.body.storeCert anyVar (okOutArr (outTensor a formats)) k.isAssemble (outTensor a formats).name = true :=
  generateIr_store_targets ofRat cap a formats g k f (outLeavesOf_bestAlgorithm a formats g hg) h

/-- whenever the compiler builds graphs at all, the output tensor is called `a.tname` and its id is
`0_<a.tname>` -/
theorem outTensor_of_graphs (a : Alg.DAssign) (formats : Formats) (gs : List IGraph)
    (hgs : toIterationGraphs a formats = .ok gs) :
    (outTensor a formats).name = a.tname ∧ (outTensor a formats).id = toString 0 ++ "_" ++ a.tname := by
  unfold toIterationGraphs at hgs
  split at hgs
  · cases hgs
  · rename_i out hout
    have hT : outTensor a formats = out := by simp [outTensor, hout]
    rw [hT]
    unfold tensorId at hout
    split at hout
    · cases hout
    · cases hout; exact ⟨rfl, rfl⟩

/-- **The output name is `outTensor a formats`' name, not `a.tname`, when the format table lacks the
output** (closed counterexample to T1 stated with `a.tname`): `a() = 0`, empty format table,
`evaluate`: the kernel stores into `_vals[0]`; the certificate for a tensor called `a` fails, the
one for `outTensor` holds. -/
theorem store_targets_name_is_outTensor :
    ∃ f, generateIr (F := Int) StoreExamples.ofR none StoreExamples.asg0 [] (.terminal (.int 0)) .evaluate = .ok f ∧
      f.body.storeCert anyVar (okOutArr ⟨"0_a", "a", [], []⟩) true "a" = false ∧
      f.body.storeCert anyVar (okOutArr (outTensor StoreExamples.asg0 [])) true
        (outTensor StoreExamples.asg0 []).name = true :=
  StoreExamples.generateIr_noformat

/-! ### T2 -/

omit [FloatOps F] in
/-- **T2.** A `compute` kernel — for every assignment, format table and graph — stores only into
local variables, `<out>_vals[…]` and `bucket_<out.id>…[…]`: no `pos`/`crd` array is written, nothing
is handed over to a tensor struct. -/
theorem generateIr_compute_structure_untouched (ofRat : Rat → F) (cap : Option Int) (a : Alg.DAssign)
    (formats : Formats) (g : IGraph) (f : Func F)
    (h : generateIr ofRat cap a formats g .compute = .ok f) :
    f.body.storeCert anyVar (okOutValArr (outTensor a formats)) false (outTensor a formats).name = true := by
  have hk : Kind.compute.isAssemble = false := rfl
  refine generateIr_sc (okOutValArr (outTensor a formats)) false (fun _ => true) ofRat cap a formats g .compute f
    (okOutValArr_vals _) (okOutValArr_bucket _) (fun h => by simp [hk] at h) (fun h => by simp [hk] at h)
    (fun h => by simp [hk] at h) ?_ h
  -- every graph satisfies the trivial leaf predicate
  have hall : ∀ g : IGraph, g.outAll (fun _ => true) = true := by
    intro g
    induction g using IGraph.rec (motive_2 := fun ts => outAllL (fun _ => true) ts = true) with
    | terminal e => simp [IGraph.outAll]
    | iter i o n ih => cases o <;> simp [IGraph.outAll, ih]
    | sum ts ih => simpa [IGraph.outAll] using ih
    | nil => simp [outAllL]
    | cons t ts iht ihts => simp [outAllL, iht, ihts]
  exact hall g

omit [FloatOps F] in
/-- T2 implies the T1 certificate (with `okAttr = false`) for `compute`, without any hypothesis on
the graph -/
theorem generateIr_compute_store_targets (ofRat : Rat → F) (cap : Option Int) (a : Alg.DAssign)
    (formats : Formats) (g : IGraph) (f : Func F)
    (h : generateIr ofRat cap a formats g .compute = .ok f) :
    f.body.storeCert anyVar (okOutArr (outTensor a formats)) false (outTensor a formats).name = true :=
  storeCert_mono (fun _ hx => hx) (okOutValArr_le _) (fun hx => hx) _
    (generateIr_compute_structure_untouched ofRat cap a formats g f h)

/-! ### T3 -/

/-- **T3.** Name disjointness. `T` the output tensor, `n` another tensor name, both without `'_'`
(the parser admits `[A-Za-z][A-Za-z0-9]*` only), `n ≠ "bucket"`: none of the array variables
unpacked from `n` is an array of the output. -/
theorem input_arrays_disjoint (T : TensorId) (n : String)
    (hn : '_' ∉ n.toList) (hT : '_' ∉ T.name.toList) (hne : n ≠ T.name) (hnb : n ≠ "bucket") :
    okOutArr T (valsName n) = false ∧
      ∀ l, okOutArr T (posName n l) = false ∧ okOutArr T (crdName n l) = false :=
  ⟨not_okOutArr_of_head T n _ hn hT hne hnb (hasHead_valsName n),
   fun l => ⟨not_okOutArr_of_head T n _ hn hT hne hnb (hasHead_posName n l),
             not_okOutArr_of_head T n _ hn hT hne hnb (hasHead_crdName n l)⟩⟩

/-- the same for the smaller predicate of T2 -/
theorem input_arrays_disjoint_val (T : TensorId) (n : String)
    (hn : '_' ∉ n.toList) (hT : '_' ∉ T.name.toList) (hne : n ≠ T.name) (hnb : n ≠ "bucket") :
    okOutValArr T (valsName n) = false ∧
      ∀ l, okOutValArr T (posName n l) = false ∧ okOutValArr T (crdName n l) = false := by
  have key : ∀ x, okOutArr T x = false → okOutValArr T x = false := by
    intro x hx
    cases hv : okOutValArr T x with
    | false => rfl
    | true => rw [okOutValArr_le T x hv] at hx; cases hx
  obtain ⟨h1, h2⟩ := input_arrays_disjoint T n hn hT hne hnb
  exact ⟨key _ h1, fun l => ⟨key _ (h2 l).1, key _ (h2 l).2⟩⟩

/-- **T3 needs `n ≠ "bucket"`** (closed counterexample to T3 as first stated): for a scalar output
tensor called `pos`, the bucket of the output is `bucket_0_pos` — the `pos` array of layer 0 of an
input tensor called `bucket`. (Both names are `'_'`-free and different.) -/
theorem bucket_name_collision :
    okOutValArr ⟨"0_pos", "pos", [], []⟩ (posName "bucket" 0) = true ∧
    okOutArr ⟨"0_pos", "pos", [], []⟩ (posName "bucket" 0) = true ∧
    '_' ∉ "bucket".toList ∧ '_' ∉ "pos".toList ∧ "bucket" ≠ "pos" := by
  decide

/-! ### T4 -/

/-- **T4.** The peephole optimiser preserves the store certificate. -/
theorem peepS_storeCert (okVar okArr : String → Bool) (okAttr : Bool) (out : String) (s : Stmt F)
    (h : s.storeCert okVar okArr okAttr out = true) : (peepS s).storeCert okVar okArr okAttr out = true :=
  storeCert_peepS okVar okArr okAttr out s h

/-- T1 for the optimised kernel -/
theorem generateIr_store_targets_peep (ofRat : Rat → F) (cap : Option Int) (a : Alg.DAssign) (formats : Formats)
    (g : IGraph) (k : Kind) (f : Func F)
    (hg : outLeavesOf (outTensor a formats) g = true)
    (h : generateIr ofRat cap a formats g k = .ok f) :
    (peepF f).body.storeCert anyVar (okOutArr (outTensor a formats)) k.isAssemble (outTensor a formats).name = true :=
  peepS_storeCert _ _ _ _ _ (generateIr_store_targets ofRat cap a formats g k f hg h)

/-- T2 for the optimised kernel -/
theorem generateIr_compute_structure_untouched_peep (ofRat : Rat → F) (cap : Option Int) (a : Alg.DAssign)
    (formats : Formats) (g : IGraph) (f : Func F)
    (h : generateIr ofRat cap a formats g .compute = .ok f) :
    (peepF f).body.storeCert anyVar (okOutValArr (outTensor a formats)) false (outTensor a formats).name = true :=
  peepS_storeCert _ _ _ _ _ (generateIr_compute_structure_untouched ofRat cap a formats g f h)

/-! ### non-vacuity -/

/-- hand-written: `a_vals[p] = …; p = p + 1` is accepted -/
example : (Stmt.block [.assign (.idx (.var "a_vals") (.var "p")) (.var "x"),
      .loop (.boolLit true) (.block [increment (.var "p") (.intLit 1)] none)] none : Stmt Int).storeCert
    anyVar (okOutArr ⟨"0_a", "a", ["i"], [.compressed]⟩) false "a" = true := by decide

/-- hand-written: a store through `b_vals`, nested in a loop and a branch, is rejected -/
example : (Stmt.block [.loop (.boolLit true) (.branch (.var "c")
      (.block [.assign (.idx (.var "b_vals") (.var "p")) (.var "x")] none) (.block [] none))] none : Stmt Int).storeCert
    anyVar (okOutArr ⟨"0_a", "a", ["i"], [.compressed]⟩) true "a" = false := by decide

/-- hand-written: handing `a_vals` over to `a->vals` needs `okAttr`, and the right tensor -/
example : ((Stmt.assign (.attr (.var "a") "vals") (.var "a_vals") : Stmt Int).storeCert anyVar (fun _ => false) true "a" = true) ∧
    ((Stmt.assign (.attr (.var "a") "vals") (.var "a_vals") : Stmt Int).storeCert anyVar (fun _ => false) false "a" = false) ∧
    ((Stmt.assign (.attr (.var "b") "vals") (.var "a_vals") : Stmt Int).storeCert anyVar (fun _ => false) true "a" = false) := by
  decide

/-- generated kernels: `a(i) = 1` with `a` compressed and the well-formed graph — all three kernels
are generated, T1 applies to each (optimised or not), T2 to the `compute` kernel -/
example (k : Kind) : ∃ f, generateIr (F := Int) StoreExamples.ofR none StoreExamples.asg StoreExamples.fm
      StoreExamples.goodGraph k = .ok f ∧
    (peepF f).body.storeCert anyVar (okOutArr StoreExamples.aT) k.isAssemble "a" = true := by
  obtain ⟨f, hf⟩ := StoreExamples.generateIr_good k
  refine ⟨f, hf, ?_⟩
  have := generateIr_store_targets_peep _ _ _ _ _ k f (by rw [StoreExamples.outTensor_asg]; decide) hf
  rw [StoreExamples.outTensor_asg] at this
  exact this

example : ∃ f, generateIr (F := Int) StoreExamples.ofR none StoreExamples.asg StoreExamples.fm
      StoreExamples.goodGraph .compute = .ok f ∧
    f.body.storeCert anyVar (okOutValArr StoreExamples.aT) false "a" = true := by
  obtain ⟨f, hf⟩ := StoreExamples.generateIr_good .compute
  refine ⟨f, hf, ?_⟩
  have := generateIr_compute_structure_untouched _ _ _ _ _ f hf
  rw [StoreExamples.outTensor_asg] at this
  exact this

end TV.Gen
