import Std.Data.String.ToInt
import TensoraVerif.Lemmas.CTokens
import TensoraVerif.Lemmas.CParseCorrect
import TensoraVerif.Lemmas.CGrammar

/-!
C06 — the printed C means the tree, up to left re-association of same-precedence chains.

`cExpr` (`Model/CPrint.lean`) is the validated port of the project's C expression printer;
`cToks` / `renderC` (`Model/CTokens.lean`) are its token view, `cParse` an independent parser of the
emitted C subset with ISO C precedence and left associativity, `leftAssoc` the tree that grammar
assigns to the printed text, and `Layered` / `LeftNested` computable certificates.

* `cExpr_eq_render`: the token sequence renders to exactly the printer's string (all expressions).
* `cprint_parse`: for a `Layered` tree, parsing the printed tokens yields `leftAssoc e` and consumes
  every token.
* `leftAssoc_id_of_leftNested` / `cprint_parse_exact`: without right-nested same-precedence chains the
  C text denotes exactly the tree.
* `cprint_reassoc_witness`: finding F10 is real — `Add x (Add y z)` prints `x + y + z`, which C reads
  as `(x + y) + z`.
* `cprint_unlayered_witness`: outside `Layered` the printer is not faithful — `Add a (Lt b c)` prints
  `a + b < c`, which C reads as `(a + b) < c`.
* `cparse_sound` / `cprint_derives`: `cParse` is sound for the left-recursive textbook grammar
  `CDerives` (ISO C's shape), so that grammar derives `leftAssoc e` from the printed tokens.
* `Layered_of_StrictLayered`: the typed layering of the code generator (arithmetic under arithmetic
  and comparisons, booleans under `&&` / `||`) is a special case of `Layered`.

The fragment excludes `alloc` / `realloc` (whole right-hand sides only; `Layered` is `false` on
them). Lexical side conditions outside the token model: names are C identifiers, a literal is one
token (see the header of `Model/CTokens.lean` for negative literals).
-/
namespace TV.IR

variable {F : Type}

/-- the token view is the printer: `renderC (cToks e)` is the validated string, for every `e` -/
theorem cprint_tokens (showF : F → String) (e : Expr F) : cExpr showF e = renderC (cToks showF e) :=
  cExpr_eq_render showF e

/-- parsing the printed tokens of a layered tree (with ISO C precedence and associativity) yields
its left re-association, consuming all tokens -/
theorem cprint_parse (readNum : String → Expr F) (showF : F → String) (e : Expr F)
    (h : Layered e = true) (hnum : LitsOk readNum showF e) :
    ∃ fuel, cParse readNum fuel (cToks showF e) = some (leftAssoc e, []) :=
  cParse_cToks e h hnum

/-- the parser only returns trees the textbook (left-recursive, ISO-C-shaped) grammar derives -/
theorem cparse_sound (readNum : String → Expr F) {fuel : Nat} {ts : List CTok} {e : Expr F}
    (h : cParse readNum fuel ts = some (e, [])) : CDerives readNum 0 ts e :=
  cParse_sound h

/-- in grammar terms: the printed tokens of a layered tree are an expression whose syntax tree is
the left re-association of the tree -/
theorem cprint_derives (readNum : String → Expr F) (showF : F → String) (e : Expr F)
    (h : Layered e = true) (hnum : LitsOk readNum showF e) :
    CDerives readNum 0 (cToks showF e) (leftAssoc e) := by
  obtain ⟨fuel, hp⟩ := cprint_parse readNum showF e h hnum
  exact cParse_sound hp

/-- more fuel never changes a successful parse -/
theorem cParse_fuel_mono (readNum : String → Expr F) {fuel fuel' : Nat} {ts : List CTok}
    {res : Expr F × List CTok} (h : cParse readNum fuel ts = some res) (hle : fuel ≤ fuel') :
    cParse readNum fuel' ts = some res :=
  cP_mono h hle

/-- no right-nested same-precedence chain ⇒ C's reading of the text is the tree itself -/
theorem leftAssoc_id_of_leftNested (e : Expr F) (h : LeftNested e = true) : leftAssoc e = e := by
  induction e with
  | var n => rfl
  | attr t a ih => simp [LeftNested] at h; simp [leftAssoc, ih h]
  | idx t i iht ihi => simp [LeftNested] at h; simp [leftAssoc, iht h.1, ihi h.2]
  | intLit v => rfl
  | floatLit v => rfl
  | boolLit b => rfl
  | bin op l r ihl ihr =>
    have hl : LeftNested l = true := by simp [LeftNested] at h; exact h.1.1
    have hr : LeftNested r = true := by simp [LeftNested] at h; exact h.1.2
    have hla : leftAssoc (Expr.bin op l r) = mkBin op l r := by
      simp only [leftAssoc, ihl hl, ihr hr]
    rw [hla]
    by_cases h5 : opLvl op ≤ 5
    · have hc : parenR op r = true ∨ opLvl op ≠ r.lvl := by
        cases op <;> first | (simp [opLvl] at h5; done) | (simp [LeftNested] at h; simp [h])
      have hne : op = .sub ∨ r.lvl ≠ opLvl op := by
        cases hc with
        | inl hp => exact parenR_lvl op r hp
        | inr hn => exact Or.inr (fun h' => hn h'.symm)
      cases hne with
      | inl hs => subst hs; rfl
      | inr hn =>
        have hg := graft_of_lvl_ne op l r hn
        cases op <;> first | exact hg | rfl
    · cases op <;> first | (simp [opLvl] at h5; done) | rfl
  | b2i e ih => simp [LeftNested] at h; simp [leftAssoc, ih h]
  | alloc t n ih => simp [LeftNested] at h; simp [leftAssoc, ih h]
  | realloc o t n iho ihn => simp [LeftNested] at h; simp [leftAssoc, iho h.1, ihn h.2]

/-- layered and left-nested: the C text parses back to exactly the tree -/
theorem cprint_parse_exact (readNum : String → Expr F) (showF : F → String) (e : Expr F)
    (h : Layered e = true) (hn : LeftNested e = true) (hnum : LitsOk readNum showF e) :
    ∃ fuel, cParse readNum fuel (cToks showF e) = some (e, []) := by
  have := cprint_parse readNum showF e h hnum
  rwa [leftAssoc_id_of_leftNested e hn] at this

/-- the typed layering the code generator produces implies `Layered` -/
theorem Layered_of_StrictLayered (e : Expr F) (h : StrictLayered e = true) : Layered e = true := by
  have arith : ∀ x : Expr F, x.isArithLevel = true → 4 ≤ x.lvl ∧ (x.isAddSub = true ∨ 5 ≤ x.lvl) := by
    intro x hx
    cases x <;> simp [Expr.isArithLevel] at hx <;> simp [Expr.lvl, Expr.isAddSub]
    rename_i o _ _
    cases o <;> simp [opLvl] at hx ⊢
  have boolL : ∀ x : Expr F, x.isBoolLevel = true → x.isOr = true ∨ 1 ≤ x.lvl := by
    intro x hx
    cases x <;> simp [Expr.isBoolLevel] at hx <;> simp [Expr.lvl]
    rename_i o _ _
    cases o <;> simp [opLvl, Expr.isOr] at hx ⊢
  induction e with
  | var n => rfl
  | attr t a ih => simp [StrictLayered] at h; simp [Layered, h.1, ih h.2]
  | idx t i iht ihi => simp [StrictLayered] at h; simp [Layered, h.1.1, iht h.1.2, ihi h.2]
  | intLit v => rfl
  | floatLit v => rfl
  | boolLit b => rfl
  | bin op l r ihl ihr =>
    have hl : StrictLayered l = true := by
      cases op <;> simp [StrictLayered] at h <;> first | exact h.1.1 | exact h.1
    have hr : StrictLayered r = true := by
      cases op <;> simp [StrictLayered] at h <;> first | exact h.1.2 | exact h.2
    have ihl' := ihl hl
    have ihr' := ihr hr
    cases op <;> simp [StrictLayered, hl, hr] at h <;>
      simp [Layered, ihl', ihr', parenL, parenR]
    all_goals simp only [opLvl]
    all_goals first
      | exact ⟨boolL l h.1, boolL r h.2⟩
      | exact ⟨Nat.zero_le _, Nat.zero_le _⟩
      | (obtain ⟨a1, a2⟩ := arith l h.1
         obtain ⟨b1, b2⟩ := arith r h.2
         first
          | exact ⟨by omega, by omega⟩
          | exact ⟨by omega, Or.inr (by omega)⟩
          | exact ⟨a2, b2⟩)
  | b2i e ih => simp [StrictLayered] at h; simp [Layered, ih h]
  | alloc t n ih => simp [StrictLayered] at h
  | realloc o t n iho ihn => simp [StrictLayered] at h

/-! ### carrier `F := Int`, `showF := toString` -/

theorem readIntLit_toString (v : Int) : readIntLit (toString v) = .intLit v := by
  simp [readIntLit]

/-- integer literals are read back by `readIntLit`; only float literals (which `toString` prints like
integers) are excluded -/
theorem litsOk_int (e : Expr Int) (h : e.noFloatLit = true) : LitsOk readIntLit toString e := by
  induction e with
  | var n => trivial
  | attr t a ih => exact ih (by simpa [Expr.noFloatLit] using h)
  | idx t i iht ihi =>
    simp [Expr.noFloatLit] at h
    exact ⟨iht h.1, ihi h.2⟩
  | intLit v => exact readIntLit_toString v
  | floatLit v => simp [Expr.noFloatLit] at h
  | boolLit b => trivial
  | bin op l r ihl ihr =>
    simp [Expr.noFloatLit] at h
    exact ⟨ihl h.1, ihr h.2⟩
  | b2i e ih => exact ih (by simpa [Expr.noFloatLit] using h)
  | alloc t n ih => exact ih (by simpa [Expr.noFloatLit] using h)
  | realloc o t n iho ihn =>
    simp [Expr.noFloatLit] at h
    exact ⟨iho h.1, ihn h.2⟩

theorem cprint_parse_int (e : Expr Int) (h : Layered e = true) (hf : e.noFloatLit = true) :
    ∃ fuel, cParse readIntLit fuel (cToks toString e) = some (leftAssoc e, []) :=
  cprint_parse readIntLit toString e h (litsOk_int e hf)

/-! ### witnesses -/

/-- F10 is real: `Add x (Add y z)` is layered, prints `x + y + z`, and C reads `(x + y) + z` -/
theorem cprint_reassoc_witness : ∃ e : Expr Int, Layered e = true ∧ leftAssoc e ≠ e :=
  ⟨.bin .add (.var "x") (.bin .add (.var "y") (.var "z")), by decide,
    by simp [leftAssoc, mkBin, graft]⟩

/-- the same witness, spelled out: the printed text, the parse, and the re-associated tree -/
theorem cprint_reassoc_witness' :
    let e : Expr Int := .bin .add (.var "x") (.bin .add (.var "y") (.var "z"))
    cExpr toString e = "x + y + z" ∧
      cParse readIntLit 20 (cToks toString e)
        = some (.bin .add (.bin .add (.var "x") (.var "y")) (.var "z"), []) ∧
      leftAssoc e = .bin .add (.bin .add (.var "x") (.var "y")) (.var "z") :=
  ⟨by decide, rfl, rfl⟩

/-- outside `Layered` the printer is not faithful: `Add a (Lt b c)` prints `a + b < c`, whose parse
`(a + b) < c` is neither the tree nor its re-association -/
theorem cprint_unlayered_witness :
    ∃ (e e' : Expr Int), Layered e = false ∧ cExpr toString e = "a + b < c" ∧
      cParse readIntLit 20 (cToks toString e) = some (e', []) ∧ e' ≠ leftAssoc e ∧ e' ≠ e :=
  ⟨.bin .add (.var "a") (.bin .lt (.var "b") (.var "c")),
    .bin .lt (.bin .add (.var "a") (.var "b")) (.var "c"),
    by decide, by decide, rfl, by simp [leftAssoc, mkBin, graft, opLvl], by simp⟩

/-! ### realistic kernel expressions -/

/-- `p_1_b_0 * j_dim + j` -/
def exPos : Expr Int := .bin .add (.bin .mul (.var "p_1_b_0") (.var "j_dim")) (.var "j")

/-- `b_vals[p_1_b_1] * c_vals[p_2_c_0]` -/
def exProd : Expr Int :=
  .bin .mul (.idx (.var "b_vals") (.var "p_1_b_1")) (.idx (.var "c_vals") (.var "p_2_c_0"))

/-- `(int32_t)(i_1_b_1 == j)` -/
def exCast : Expr Int := .b2i (.bin .eq (.var "i_1_b_1") (.var "j"))

/-- `b->indices[1][1][p_1_b_1 + 1] - b->indices[1][1][p_1_b_1] > 0 && i < TACO_MIN(i_dim, 8)` -/
def exCond : Expr Int :=
  .bin .and
    (.bin .gt
      (.bin .sub
        (.idx (.idx (.idx (.attr (.var "b") "indices") (.intLit 1)) (.intLit 1))
          (.bin .add (.var "p_1_b_1") (.intLit 1)))
        (.idx (.idx (.idx (.attr (.var "b") "indices") (.intLit 1)) (.intLit 1)) (.var "p_1_b_1")))
      (.intLit 0))
    (.bin .lt (.var "i") (.bin .min (.var "i_dim") (.intLit 8)))

example : cExpr toString exPos = "p_1_b_0 * j_dim + j" := by decide
example : cExpr toString exProd = "b_vals[p_1_b_1] * c_vals[p_2_c_0]" := by decide
example : cExpr toString exCast = "(int32_t)(i_1_b_1 == j)" := by decide

/-- each is layered and left-nested, so by `cprint_parse_exact` the C text denotes exactly the tree -/
example : ∃ fuel, cParse readIntLit fuel (cToks toString exPos) = some (exPos, []) :=
  cprint_parse_exact _ _ exPos (by decide) (by decide) (litsOk_int _ (by decide))
example : ∃ fuel, cParse readIntLit fuel (cToks toString exProd) = some (exProd, []) :=
  cprint_parse_exact _ _ exProd (by decide) (by decide) (litsOk_int _ (by decide))
example : ∃ fuel, cParse readIntLit fuel (cToks toString exCast) = some (exCast, []) :=
  cprint_parse_exact _ _ exCast (by decide) (by decide) (litsOk_int _ (by decide))
example : ∃ fuel, cParse readIntLit fuel (cToks toString exCond) = some (exCond, []) :=
  cprint_parse_exact _ _ exCond (by decide) (by decide) (litsOk_int _ (by decide))

/-- and the parser does compute it (no literals involved, so this is evaluation only) -/
example : cParse readIntLit 20 (cToks toString exPos) = some (exPos, []) := rfl
example : cParse readIntLit 20 (cToks toString exProd) = some (exProd, []) := rfl
example : cParse readIntLit 20 (cToks toString exCast) = some (exCast, []) := rfl

/-- the typed certificate holds for them as well -/
example : StrictLayered exPos = true ∧ StrictLayered exProd = true ∧ StrictLayered exCast = true ∧
    StrictLayered exCond = true := by decide

end TV.IR
