import TensoraVerif.Model.FloatLaws
import TensoraVerif.Lemmas.ScopedSim
import TensoraVerif.Lemmas.ScopedNoRedecl

/-!
# C06, scoping: the block-scoped (C) and the flat, hoisted (LLVM) readings of a kernel coincide

The C back end prints declarations where the IR has them, so they are block scoped; the LLVM back
end hoists every declaration to one function-level slot per name, which is the semantics of
`exec` (`Model/Machine.lean`). Generated kernels do shadow (an outer `int32_t k` and, later in the same
scope, a loop whose body declares `int32_t k` again). The two readings agree because the outer
variable is dead once it has been shadowed; `scopeOK` (`Model/Scoped.lean`) checks exactly that,
and `hoistConsistent` (`Model/CPrint.lean`) checks that one slot per name is well typed.

* `scoped_eq_flat` — the theorem;
* `flat_never_redeclared`, `scoped_never_redeclared` — under the certificates neither machine ever
  answers `.redeclared` (hoisting one slot per name is well typed; the C text compiles);
* `shadowProg_certified`, `shadowProg_runs` — non-vacuity: a shadowing program that both
  certificates accept, and a run of it;
* `scopeOK_needed`, `hoistConsistent_needed`, `selfInit_needed` — each check is necessary.
-/
namespace TV.IR
variable {F : Type} [FloatOps F]

open Scoped

/-- The two initial states bind exactly the parameters, in one scope on the C side, to the same
values, over the same heap and the same tensors. -/
structure InitAgree (params : List (String × Ty)) (σc : CState F) (σ : State F) : Prop where
  scopes : σc.scopes = [σ.vars]
  params : σ.vars.map (fun r => (r.name, r.ty)) = params
  heap : σc.heap = σ.heap
  tensors : σc.tensors = σ.tensors

/-- The observable outcome of a run is the same: the same error, or the same return value, the same
`iters` and `steps`, the same final heap and the same final tensors. (The final variable
environments are not compared: they have different shapes and are not observable.) -/
def SameOutcome : Except Err (COut F) → Except Err (Out F) → Prop
  | .error e₁, .error e₂ => e₁ = e₂
  | .ok oc, .ok o =>
    oc.ret = o.ret ∧ oc.iters = o.iters ∧ oc.steps = o.steps ∧ oc.st.heap = o.st.heap ∧
      oc.st.tensors = o.st.tensors
  | _, _ => False

omit [FloatOps F] in
theorem dcons_of_hoistConsistent {params : List (String × Ty)} {body : Stmt F}
    (h : hoistConsistent params body = true) : DCons (params ++ body.decls) := by
  intro x t t' h1 h2
  simp only [hoistConsistent, List.all_eq_true] at h
  have := h _ h1 _ h2
  simpa using this

omit [FloatOps F] in
/-- the initial states are related by the initial abstract state of `scopeOK` -/
theorem initAgree_rel {params : List (String × Ty)} {body : Stmt F} {σc : CState F} {σ : State F}
    (hi : InitAgree params σc σ) (hD : DCons (params ++ body.decls)) :
    Rel (params ++ body.decls) [params.map fun p => (p.1, true)] σc σ where
  heap := hi.heap
  tensors := hi.tensors
  shape := by
    rw [hi.scopes, ← hi.params]
    simp [names, List.map_map, Function.comp_def]
  wf := ⟨fun _ _ q hq => by simp at hq, trivial⟩
  agree x _ := by rw [hi.scopes]; simp
  typed x r t hl hd := by
    have hn := lookupVar_name hl
    have hm : (r.name, r.ty) ∈ params := by
      rw [← hi.params]
      exact List.mem_map.mpr ⟨r, List.mem_of_find?_eq_some hl, rfl⟩
    rw [hn] at hm
    exact hD x r.ty t (List.mem_append_left _ hm) hd

/-- **C06 (scoping).** For every function (parameters and body), every fuel and every pair of
initial states that bind exactly the parameters to the same values over the same heap and tensors:
if the scoping certificate and the hoisting certificate accept the function, the block-scoped run
(what the emitted C means) and the flat run (what the emitted LLVM IR means) have the same outcome —
the same error, or the same return value, `iters`, `steps`, final heap and final tensors.

(Distinctness of the parameter names is not needed: both machines resolve a duplicated name to the
same, first, record.) -/
theorem scoped_eq_flat (params : List (String × Ty)) (body : Stmt F) (fuel : Nat)
    (σc : CState F) (σ : State F) (hinit : InitAgree params σc σ)
    (hscope : scopeOK params body = true) (hhoist : hoistConsistent params body = true) :
    SameOutcome (execC fuel body σc) (exec fuel body σ) := by
  have hD := dcons_of_hoistConsistent hhoist
  obtain ⟨B, hB⟩ := Option.isSome_iff_exists.mp hscope
  have h := sim hD fuel body σ _ B σc (fun p hp => List.mem_append_right _ hp) hB
    (initAgree_rel hinit hD)
  cases hc : execC fuel body σc <;> cases hf : exec fuel body σ <;> rw [hc, hf] at h
  · exact h
  · exact h.elim
  · exact h.elim
  · exact ⟨h.1, h.2.1, h.2.2.1, h.2.2.2.1, h.2.2.2.2.1⟩

/-- `scoped_eq_flat` for a `Func` -/
theorem scoped_eq_flat_func (f : Func F) (fuel : Nat) (σc : CState F) (σ : State F)
    (hinit : InitAgree f.params σc σ) (hscope : scopeOK f.params f.body = true)
    (hhoist : hoistConsistent f.params f.body = true) :
    SameOutcome (execC fuel f.body σc) (exec fuel f.body σ) :=
  scoped_eq_flat f.params f.body fuel σc σ hinit hscope hhoist

/-- Under the two certificates the flat (hoisted) machine never stops with `.redeclared`: the single
slot of every name is only ever re-declared at its one type. -/
theorem flat_never_redeclared (params : List (String × Ty)) (body : Stmt F) (fuel : Nat)
    (σc : CState F) (σ : State F) (hinit : InitAgree params σc σ)
    (hscope : scopeOK params body = true) (hhoist : hoistConsistent params body = true) :
    exec fuel body σ ≠ .error .redeclared := by
  have hD := dcons_of_hoistConsistent hhoist
  obtain ⟨B, hB⟩ := Option.isSome_iff_exists.mp hscope
  exact noRedecl hD fuel body σ _ B σc (fun p hp => List.mem_append_right _ hp) hB
    (initAgree_rel hinit hD)

/-- … and neither does the block-scoped machine (no name is declared twice in one C scope). -/
theorem scoped_never_redeclared (params : List (String × Ty)) (body : Stmt F) (fuel : Nat)
    (σc : CState F) (σ : State F) (hinit : InitAgree params σc σ)
    (hscope : scopeOK params body = true) (hhoist : hoistConsistent params body = true) :
    execC fuel body σc ≠ .error .redeclared := by
  intro hc
  have h := scoped_eq_flat params body fuel σc σ hinit hscope hhoist
  have hf := flat_never_redeclared params body fuel σc σ hinit hscope hhoist
  rw [hc] at h
  cases he : exec fuel body σ with
  | ok o => rw [he] at h; exact h
  | error e =>
    rw [he] at h
    have : e = .redeclared := h.symm
    exact hf (by rw [he, this])

/-! ### non-vacuity: a program that shadows and is certified -/

namespace ScopeEx

/-- The shape of the generated kernels:
```
int32_t k = 0;
while (k < n) { k = k + 1; }
int32_t j = 0;
while (j < n) {
  int32_t k = 5;        // shadows the outer k, which is dead from here on
  j = j + k;
}
return j;
```
-/
def shadowProg : Stmt Int :=
  .block [
    .declAssign "k" .int (.intLit 0),
    .loop (.bin .lt (.var "k") (.var "n")) (.block [
      .assign (.var "k") (.bin .add (.var "k") (.intLit 1))] none),
    .declAssign "j" .int (.intLit 0),
    .loop (.bin .lt (.var "j") (.var "n")) (.block [
      .declAssign "k" .int (.intLit 5),
      .assign (.var "j") (.bin .add (.var "j") (.var "k"))] none),
    .ret (.var "j")] none

def shadowParams : List (String × Ty) := [("n", .int)]

/-- both certificates accept the shadowing program … -/
theorem shadowProg_certified :
    scopeOK shadowParams shadowProg = true ∧ hoistConsistent shadowParams shadowProg = true := by
  decide

def initC (n : Int) : CState Int := ⟨[[⟨"n", .int, some (.int n)⟩]], [], []⟩
def initFlat (n : Int) : State Int := ⟨[⟨"n", .int, some (.int n)⟩], [], []⟩

theorem shadow_initAgree (n : Int) : InitAgree shadowParams (initC n) (initFlat n) :=
  ⟨rfl, rfl, rfl, rfl⟩

/-- … so `scoped_eq_flat` applies to it, for every `n` and every fuel … -/
example (n : Int) (fuel : Nat) :
    SameOutcome (execC fuel shadowProg (initC n)) (exec fuel shadowProg (initFlat n)) :=
  scoped_eq_flat _ _ fuel _ _ (shadow_initAgree n) shadowProg_certified.1 shadowProg_certified.2

/-- … and the run is a real one: with `n = 3` the scoped machine returns 5 after 3 + 1 iterations -/
theorem shadowProg_runs :
    ∃ oc, execC 5 shadowProg (initC 3) = .ok oc ∧ oc.ret = some (.int 5) ∧ oc.iters = 4 := by
  simp [shadowProg, initC, execC, execCL, evalRhs, evalE, evalLoc, storeC, declareC, setVarS, lookupVar,
    convTo, setVarOpt, chkInt, chkVal, inI32, hasTy, binVal, numOp, Val.toNum, bind, Except.bind,
    COut.seq, CState.flat, CState.withHT, CState.push, CState.pop, Expr.mentions]

/-! ### `scopeOK` is needed -/

/-- An outer variable read after an inner shadowing declaration:
```
int32_t k = 1;
if (true) { int32_t k = 2; }
return k;               // C: 1; hoisted: 2
```
-/
def clobberProg : Stmt Int :=
  .block [
    .declAssign "k" .int (.intLit 1),
    .branch (.boolLit true) (.declAssign "k" .int (.intLit 2)) (.block [] none),
    .ret (.var "k")] none

/-- `scopeOK` refuses the program (the hoisting certificate accepts it), and indeed the two
machines return different values -/
theorem scopeOK_needed :
    scopeOK [] clobberProg = false ∧ hoistConsistent [] clobberProg = true ∧
    ∃ oc o, execC 0 clobberProg ⟨[[]], [], []⟩ = .ok oc ∧ exec 0 clobberProg ⟨[], [], []⟩ = .ok o ∧
      oc.ret = some (.int 1) ∧ o.ret = some (.int 2) := by
  refine ⟨by decide, by decide, ?_⟩
  simp [clobberProg, execC, execCL, exec, execL, evalRhs, evalE, declareC, declare, lookupVar,
    convTo, setVarOpt, chkInt, chkVal, inI32, hasTy, bind, Except.bind, COut.seq, Out.seq,
    CState.flat, CState.withHT, CState.push, CState.pop, Expr.mentions]

/-! ### `hoistConsistent` is needed -/

/-- Two sibling scopes that reuse a name at different types:
```
if (true) { int32_t k = 1; }
if (true) { bool k = true; }     // fine in C; one hoisted slot cannot hold both
```
-/
def retypeProg : Stmt Int :=
  .block [
    .branch (.boolLit true) (.declAssign "k" .int (.intLit 1)) (.block [] none),
    .branch (.boolLit true) (.declAssign "k" .bool (.boolLit true)) (.block [] none)] none

/-- `scopeOK` accepts, `hoistConsistent` refuses, and the flat machine stops with `.redeclared`
where the scoped machine finishes -/
theorem hoistConsistent_needed :
    scopeOK [] retypeProg = true ∧ hoistConsistent [] retypeProg = false ∧
    (∃ oc, execC 0 retypeProg ⟨[[]], [], []⟩ = .ok oc) ∧
    exec 0 retypeProg ⟨[], [], []⟩ = .error .redeclared := by
  refine ⟨by decide, by decide, ?_, ?_⟩
  · simp [retypeProg, execC, execCL, evalRhs, evalE, declareC, convTo, chkInt, inI32, bind,
      Except.bind, COut.seq, CState.flat, CState.withHT, CState.push, CState.pop, Expr.mentions]
  · simp [retypeProg, exec, execL, evalRhs, evalE, declare, lookupVar, convTo, chkInt, inI32, bind,
      Except.bind]

/-! ### the self-initialisation check of `scopeOK` is needed -/

/-- In C the scope of a declared name begins at its declarator, before the initialiser:
```
int32_t k = 1;
if (true) { int32_t k = k + 1; return k; }   // C: reads the new, indeterminate k; hoisted: 2
return 0;
```
-/
def selfInitProg : Stmt Int :=
  .block [
    .declAssign "k" .int (.intLit 1),
    .branch (.boolLit true)
      (.block [.declAssign "k" .int (.bin .add (.var "k") (.intLit 1)), .ret (.var "k")] none)
      (.block [] none),
    .ret (.intLit 0)] none

/-- the scoped machine reports the read of the indeterminate variable, the flat machine returns 2;
`scopeOK` refuses the program because the initialiser mentions the declared name -/
theorem selfInit_needed :
    scopeOK [] selfInitProg = false ∧ hoistConsistent [] selfInitProg = true ∧
    execC 0 selfInitProg ⟨[[]], [], []⟩ = .error .uninit ∧
    ∃ o, exec 0 selfInitProg ⟨[], [], []⟩ = .ok o ∧ o.ret = some (.int 2) := by
  refine ⟨by decide, by decide, ?_, ?_⟩
  · simp [selfInitProg, execC, execCL, evalRhs, evalE, declareC, convTo, chkInt, inI32, bind,
      Except.bind, CState.flat, CState.withHT, CState.push, Expr.mentions]
  · simp [selfInitProg, exec, execL, evalRhs, evalE, declare, lookupVar, convTo, setVarOpt, chkInt,
      chkVal, inI32, hasTy, binVal, numOp, Val.toNum, bind, Except.bind, Out.seq]

end ScopeEx

end TV.IR
