import TensoraVerif.Lemmas.PeepholeStmt
import TensoraVerif.Lemmas.PeepholeExamples

/-!
C07 — the peephole optimiser (`Model/IR.lean`, `peepE`/`peepS`) preserves the behaviour of the
abstract machine (`Model/Machine.lean`, `evalE`/`exec`) up to numerical equality of values, under
the float hypotheses `FloatLaws`.

* `peephole_expr_sound`, `peephole_stmt_sound`: for every state, if the original succeeds then the
  optimised program succeeds with the same final state and a numerically equal value, or it stops
  with an `intOverflow` (finding F8: the float-literal identity rules retype `1.0 * i * j` to the
  integer product `i * j`).
* `peephole_expr_sound_stable`, `peephole_stmt_sound_stable`: on the retyping-free fragment
  (`NoFloatIdentityE/S`, a decidable syntactic condition: at no node the rule that fires is one of
  `0.0 + e`, `e + 0.0`, `e - 0.0`, `1.0 * e`, `e * 1.0`, `0 * e`, `e * 0`; all other rules,
  including `0 + e`, `1 * e`, `0.0 * e → 0.0`, `e == e`, the Boolean and the statement rules, are
  allowed) the optimised program yields exactly the same value / final state / return value, with
  no overflow alternative.
-/
namespace TV.IR
variable {F : Type} [FloatOps F] [FloatLaws F]

/-- numerically equal values: identical, or the original is the float image of the optimised int -/
def VRel (v v' : Val F) : Prop := v = v' ∨ ∃ i : Int, v' = .int i ∧ v = .flt (FloatOps.ofInt i)

theorem peephole_expr_sound (σ : State F) (e : Expr F) (v : Val F) (h : evalE σ e = .ok v) :
    (∃ v', evalE σ (peepE e) = .ok v' ∧ VRel v v') ∨ evalE σ (peepE e) = .error .intOverflow :=
  peepE_sound h

def RetRel : Option (Val F) → Option (Val F) → Prop
  | none, none => True
  | some v, some v' => VRel v v'
  | _, _ => False

/-- same final state, numerically equal return value, no more iterations/steps -/
def OutRel (o o' : Out F) : Prop :=
  o'.st = o.st ∧ RetRel o.ret o'.ret ∧ o'.iters ≤ o.iters ∧ o'.steps ≤ o.steps

theorem peephole_stmt_sound (fuel : Nat) (s : Stmt F) (σ : State F) (o : Out F)
    (h : exec fuel s σ = .ok o) :
    (∃ o', exec fuel (peepS s) σ = .ok o' ∧ OutRel o o') ∨
      exec fuel (peepS s) σ = .error .intOverflow := by
  rcases peepS_sound false fuel s σ (fun hx => by cases hx) o h with ⟨o', e', r1, r2, r3, r4⟩ | ⟨_, e'⟩
  · refine Or.inl ⟨o', e', r1, ?_, r3, r4⟩
    cases hr : o.ret <;> cases hr' : o'.ret <;> rw [hr, hr'] at r2
    · trivial
    · exact r2.elim
    · exact r2.elim
    · exact r2.1
  · exact Or.inr e'

/-- On the retyping-free fragment (`NoFloatIdentityE e`: no node of `e` is rewritten by a
float-literal identity rule or by `0 * _`; every other rule may fire) the optimised expression
evaluates to exactly the same value — in particular it cannot overflow. -/
theorem peephole_expr_sound_stable (σ : State F) (e : Expr F) (v : Val F)
    (hs : NoFloatIdentityE e) (h : evalE σ e = .ok v) : evalE σ (peepE e) = .ok v :=
  peepE_exact hs h

/-- Statement version: same final state and the same return value (and no more iterations/steps,
see `peepS_sound true`). -/
theorem peephole_stmt_sound_stable (fuel : Nat) (s : Stmt F) (σ : State F) (o : Out F)
    (hs : NoFloatIdentityS s) (h : exec fuel s σ = .ok o) :
    ∃ o', exec fuel (peepS s) σ = .ok o' ∧ o'.st = o.st ∧ o'.ret = o.ret := by
  rcases peepS_sound true fuel s σ (fun _ => hs) o h with ⟨o', e', r1, r2, _, _⟩ | ⟨hx, _⟩
  · exact ⟨o', e', r1, r2.eq⟩
  · cases hx

/-! ### non-vacuity (over the exact carrier `F := Int`) -/

/-- the hypotheses of the statement theorems are satisfiable on a non-trivial program: a loop
summing the array `[1, 2, 3]` runs to completion (3 iterations, returns 6) … -/
example : ∃ o, exec 10 C07Ex.sumProg C07Ex.sumState = .ok o ∧ o.ret = some (.int 6) ∧ o.iters = 3 :=
  C07Ex.sum_runs

/-- … it lies in the retyping-free fragment, the optimiser really rewrites it … -/
example : NoFloatIdentityS C07Ex.sumProg = true ∧ peepS C07Ex.sumProg = C07Ex.sumProgOpt :=
  ⟨by decide, by rfl⟩

/-- … and `peephole_stmt_sound_stable` transfers the run to the optimised program. -/
example : ∃ o', exec 10 C07Ex.sumProgOpt C07Ex.sumState = .ok o' ∧ o'.ret = some (.int 6) := by
  obtain ⟨o, h, hr, _⟩ := C07Ex.sum_runs
  obtain ⟨o', h', _, hr'⟩ := peephole_stmt_sound_stable 10 _ _ o (by decide) h
  exact ⟨o', h', hr'.trans hr⟩

/-- F8 witness: the float-literal identity `1.0 * i → i` retypes the product … -/
example : peepE (.bin .mul (.bin .mul (.floatLit 1) (.var "i")) (.var "j") : Expr Int)
    = .bin .mul (.var "i") (.var "j") := by rfl

/-- … so that with `i = j = 100000` the original evaluates (in float) to `1e10` while the optimised
expression overflows: the `intOverflow` alternative of `peephole_expr_sound` is needed, and
`NoFloatIdentityE` rejects the expression. -/
example : evalE C07Ex.f8State C07Ex.f8Expr = .ok (.flt 10000000000)
    ∧ evalE C07Ex.f8State (peepE C07Ex.f8Expr) = .error .intOverflow
    ∧ NoFloatIdentityE C07Ex.f8Expr = false :=
  ⟨by rfl, by rfl, by rfl⟩

end TV.IR
