import TensoraVerif.Lemmas.OptCsr
import TensoraVerif.Lemmas.OptD2s
import TensoraVerif.Lemmas.OptDense1
import TensoraVerif.Lemmas.OptDense2
import TensoraVerif.Lemmas.OptDenseN
import TensoraVerif.Lemmas.OptDenseTerm
import TensoraVerif.Lemmas.OptSpadd
import TensoraVerif.Lemmas.OptSparse1
import TensoraVerif.Lemmas.OptSparse2
import TensoraVerif.Lemmas.OptSpdot
import TensoraVerif.Lemmas.OptSpmul
import TensoraVerif.Props.C01Convert
import TensoraVerif.Props.C01Csr
import TensoraVerif.Props.C01Dense
import TensoraVerif.Props.C01Dense2
import TensoraVerif.Props.C01DenseN
import TensoraVerif.Props.C01DenseTerm
import TensoraVerif.Props.C01Spadd
import TensoraVerif.Props.C01Sparse1
import TensoraVerif.Props.C01Sparse2
import TensoraVerif.Props.C01Spdot
import TensoraVerif.Props.C01Spmul
import TensoraVerif.Props.C07Typed

/-!
# C07 ∘ C01: the end-to-end kernel theorems for the OPTIMISED kernels

The compiler returns `peephole(generate_ir(…))`; the end-to-end theorems of C01 are about the function
`f` with `generateIr … = .ok f`. Here they are carried over to `peepF f`, EXACTLY (same final state,
same return value, no `intOverflow` alternative), through the typed stable fragment of C07
(`Props/C07Typed.lean`): for every kernel of a class

* `(kernel …).noRetype = true` is PROVED for the symbolic kernel term (all index / tensor names, all
  orders / all right-hand sides of the class) — `Opt.<Class>.kernel_noRetype` in `Lemmas/Opt<Class>.lean`:
  the function's own typing `Func.tyEnv` (parameters, then declarations) is computed through a classifier
  of the names (`taco_tensor_t*` parameters, `double*` for `<t>_vals` and bucket pointers, `int32_t*` for
  `<t>_<l>_pos` / `<t>_<l>_crd`, `bool` for the `written` flags, `int` for everything else — the name
  disjointness comes from the side conditions `KernelOK` / `Nodup` of the class), and every statement of
  the kernel respects it (`Opt.<Class>.kernel_noRetypeS`; generic statement shapes in
  `Lemmas/OptCommon.lean`, integer expressions and `mulJoin`/`addJoin` folds in `Lemmas/OptIntE.lean`);
* the initial state `Init …` of the class agrees with that typing (`WT`, the invariant behind
  `State.agrees`) as soon as the tensor records of the state have the element types of `taco_tensor_t`
  (`TensorsOK σ.heap σ.tensors`: `dimensions`, `pos`, `crd` are `int32_t` blocks, `vals` a `double`
  block). This is the ONE hypothesis added to those of `<class>_kernel_correct`: `Init` constrains only
  the records and blocks the kernel reads, while the invariant of C07 is about all of them
  (`naive_agreement_insufficient` in `Props/C07Typed.lean` shows that the heap part cannot be dropped).
  `State.agrees` itself (a check of ALL variable records, shadowed ones included) does not follow from
  `Init`, which speaks about `lookupVar` only; `WT` does, and it is what the soundness proof consumes.

Classes done (one `namespace TV.IR … end TV.IR` section each, in this order): DenseN, DenseTerm, Sparse1, Spmul, Spadd, Sparse2, Csr, Spdot, D2s, Dense1, Dense2.
`<class>_kernel_correct_optimised` for the nine classes of O1 (DenseN, DenseTerm incl. the matrix product,
Sparse1, Spmul, Spadd, Sparse2, Csr, Spdot, d2s) and — O2 — the exact forms
`dense1_kernel_correct_optimised_exact`, `dense2_kernel_correct_optimised_exact` of the two older corollaries.
-/

/-! ## class DenseN -/

namespace TV.IR
open TV.Gen TV.Graph

variable {F : Type} [FloatOps F] [FloatLaws F]

/-- **N3 after the peephole optimiser (dense element-wise kernels of every order).** Under the
hypotheses of `denseN_kernel_correct` (N3), the float laws `FloatLaws F`, and well-typed tensor records
(`TensorsOK`), the OPTIMISED function `peepF f` — what the compiler really emits: the position
arithmetic `0 * i_dim + i`, the capacity `1 * out->dimensions[0] * …`, the tests `if (true)` and the
literal identities of the user's expression are rewritten — runs without error, **returns `0`**, and
ends in the SAME final state as `f`: the output record's `vals` points to the fresh block
`σ.heap.length` whose cells are exactly `valueF ofRat (fun t => cellsOf t.name c) e`, `c < Π d`; all
inputs and other records unchanged. No `intOverflow` alternative; the optimised kernel makes no more
loop iterations than the original. -/
theorem denseN_kernel_correct_optimised (ofRat : Rat → F) (cap : Option Int) (a : Alg.DAssign)
    (formats : Formats) (dims : List (String × Nat)) (outT : TensorId) (e : IdExpr)
    (hout : tensorId 0 a.tname formats a.tidx = some outT)
    (ho : DenseN.isLeaf (dims.map (·.1)) outT = true) (he : DenseN.isExpr (dims.map (·.1)) e = true)
    (hf : Dense2.denseFormats formats = true)
    (hidx : a.tidx = dims.map (·.1)) (hrhs : DenseN.rhsIdx (dims.map (·.1)) a.rhs = true)
    (ok : DenseN.KernelOK formats (dims.map (·.1)) outT e)
    (tix blkOf : String → Nat) (cellsOf : String → Nat → F) (σ : State F)
    (hfit : DenseN.Fits 1 (dims.map (·.2))) (hd31 : ∀ p ∈ dims, p.2 < 2147483648)
    (hn31 : dims.length < 2147483648)
    (hfin : ∀ c, c < DenseN.prod (dims.map (·.2)) →
      Dense1.allFinite ofRat (fun t => cellsOf t.name c) e = true)
    (hinit : DenseN.Init formats outT e (dims.map (·.2)) tix blkOf cellsOf σ)
    (hT : TensorsOK σ.heap σ.tensors)
    (f : Func F)
    (hgen : generateIr ofRat cap a formats (DenseN.graph (dims.map (·.1)) outT e) .evaluate = .ok f)
    (fuel : Nat) (hfuel : DenseN.fuelNeed (dims.map (·.2)) ≤ fuel) :
    ∃ o', exec fuel (peepF f).body σ = .ok o' ∧ o'.ret = some (.int 0) ∧
      o'.iters ≤ DenseN.iterCount (dims.map (·.2)) ∧
      (∃ tr, σ.tensors[tix outT.name]? = some tr ∧
        o'.st.tensors[tix outT.name]? = some { tr with vals := .ptr σ.heap.length 0 }) ∧
      (∃ blk, o'.st.heap[σ.heap.length]? = some blk ∧ blk.live = true ∧ blk.owner = .output ∧
        blk.ty = .float ∧
        blk.cells = (List.range (DenseN.prod (dims.map (·.2)))).map fun c =>
          some (.flt (Dense1.valueF ofRat (fun t => cellsOf t.name c) e))) ∧
      (∀ b, b < σ.heap.length → o'.st.heap[b]? = σ.heap[b]?) ∧
      o'.st.heap.length = σ.heap.length + 1 ∧
      (∀ k', k' ≠ tix outT.name → o'.st.tensors[k']? = σ.tensors[k']?) := by
  obtain ⟨o, eo, hret, hit, h1, h2, h3, h4, h5⟩ :=
    DenseN.denseN_kernel_correct ofRat cap a formats dims outT e hout ho he hf hidx hrhs ok tix blkOf
      cellsOf σ hfit hd31 hn31 hfin hinit f hgen fuel hfuel
  rw [DenseN.denseN_generateIr_eq ofRat cap a formats _ outT e hout ho he ok.nodup hf hidx hrhs] at hgen
  cases hgen
  obtain ⟨o', e', hst, hr', hi'⟩ := Opt.peep_transfer _ fuel σ o
    (Opt.DenseN.kernel_noRetype ofRat formats _ outT e ok)
    (Opt.DenseN.init_WT ofRat formats _ outT e hinit hT) eo
  refine ⟨o', e', hr'.trans hret, by omega, ?_⟩
  rw [hst]
  exact ⟨h1, h2, h3, h4, h5⟩

omit [FloatLaws F] in
/-- the two facts behind it, for every kernel of the class: the kernel term lies in the typed stable
fragment relative to its own typing (the computable check `Func.noRetype` the harness evaluates per
emitted kernel is PROVED here for symbolic names and every order) -/
theorem denseN_kernel_noRetype (ofRat : Rat → F) (formats : Formats) (is : List String) (outT : TensorId)
    (e : IdExpr) (ok : DenseN.KernelOK formats is outT e) :
    (DenseN.kernel ofRat formats is outT e).noRetype = true :=
  Opt.DenseN.kernel_noRetype ofRat formats is outT e ok

/-- **not vacuous** (over `Int`; `a(i,j,k) = b(i,j,k) * c(i,j,k) + 1`, dimensions `(2,1,2)`): every
hypothesis holds on the instance of `Props/C01DenseN.lean`, the tensor records of the state are well
typed (`State.agrees`, decided), the kernel is NOT in the untyped stable fragment of `Props/C07.lean`
(a retyping-capable rule, `0 * i_dim`, fires), and the OPTIMISED kernel
returns `0` and leaves `[6, 13, 22, 33]` in the fresh block `5` -/
example : ∃ f o', generateIr DenseN.exOfRat none DenseN.exAssign DenseN.exFormats
      (DenseN.graph (DenseN.exDims.map (·.1)) DenseN.exOut DenseN.exE) .evaluate = .ok f ∧
    NoFloatIdentityS f.body = false ∧
    exec 8 (peepF f).body (DenseN.exStateOf (F := Int) id) = .ok o' ∧ o'.ret = some (.int 0) ∧
    ∃ blk, o'.st.heap[5]? = some blk ∧ blk.live = true ∧
      blk.cells = [some (.flt 6), some (.flt 13), some (.flt 22), some (.flt 33)] := by
  have hgen := DenseN.denseN_generateIr_eq DenseN.exOfRat none DenseN.exAssign DenseN.exFormats
    (DenseN.exDims.map (·.1)) DenseN.exOut DenseN.exE (by decide)
    (by decide) (by decide) (by decide) (by decide) rfl (by decide)
  have hT : TensorsOK (DenseN.exStateOf (F := Int) id).heap (DenseN.exStateOf (F := Int) id).tensors :=
    (agrees_WT (Γ := fun _ => none) (σ := DenseN.exStateOf (F := Int) id) (by decide)).tensors
  obtain ⟨o', eo, hret, _, _, ⟨blk, hb, hlive, _, _, hcells⟩, _⟩ :=
    denseN_kernel_correct_optimised DenseN.exOfRat none DenseN.exAssign DenseN.exFormats DenseN.exDims
      DenseN.exOut DenseN.exE (by decide) (by decide) (by decide)
      (by decide) rfl (by decide) DenseN.exKernelOK DenseN.exTix DenseN.exBlkOf _ _ DenseN.exFits
      (by decide) (by decide)
      (fun c _ => Dense1.allFinite_of_total (fun _ => rfl) _ _ _) (DenseN.exInitOf (F := Int) id) hT _ hgen 8
      (by decide)
  refine ⟨_, o', hgen, by decide, eo, hret, blk, hb, hlive, ?_⟩
  rw [hcells]
  rfl

end TV.IR


/-! ## class DenseTerm -/

namespace TV.IR
open TV.Gen TV.Graph

variable {F : Type} [FloatOps F] [FloatLaws F]

/-! ### DenseTerm: all dense single-term contractions (matrix product, dot product, …) -/

omit [FloatLaws F] in
/-- every kernel of the class DenseTerm (arbitrary linear loop nest, bucket accumulation) lies in the
typed stable fragment relative to its own typing — proved for the symbolic kernel term -/
theorem denseTerm_kernel_noRetype (ofRat : Rat → F) (formats : Formats)
    (srcs : List (String × String × Nat)) (C : DenseTerm.Ctx F) (ok : DenseTerm.KernelOK formats srcs C) :
    (DenseTerm.kernel ofRat formats srcs C.full C.outT C.e).noRetype = true :=
  Opt.DenseTerm.kernel_noRetype ofRat formats srcs C ok

/-- **T3 after the peephole optimiser (all dense single-term contractions).** Under the hypotheses of
`denseTerm_kernel_correct` (T3), the float laws `FloatLaws F` and well-typed tensor records
(`TensorsOK`), the OPTIMISED function `peepF f` (position arithmetic `0 * x_dim + x`, the bucket
address `out_vals + 0 * (1 * …)`, the products `1 * d * …`, the raveled bucket index `0 + 1 * j …`, the
tests `if (true)`, the literal identities of the user's expression are rewritten) runs without error,
**returns `0`**, in no more loop iterations, and ends in the SAME final state: `KernelPost` holds — the
output record's `vals` points to the fresh block `σ.heap.length` of exactly `C.N` cells in which cell
`lin 0 dims J` holds `cellF … J` (the terms of all contraction multi-indexes added in loop order);
every old block and every other record unchanged. No `intOverflow` alternative. -/
theorem denseTerm_kernel_correct_optimised (ofRat : Rat → F) (cap : Option Int) (a : Alg.DAssign)
    (formats : Formats) (C : DenseTerm.Ctx F)
    (hout : tensorId 0 a.tname formats a.tidx = some C.outT)
    (hz : ∀ p ∈ C.full, p.2 = false → DenseTerm.zeroish C.e = false)
    (hf : Dense2.denseFormats formats = true)
    (ok : DenseTerm.KernelOK formats (indexDimensions a) C) (tix : String → Nat) (σ : State F)
    (hob : C.ob = σ.heap.length)
    (hok : ∀ J, DenseN.Below J (DenseTerm.outDims C.dimOf C.full) →
      DenseTerm.cellOK ofRat C.dimOf C.cellsOf C.e C.full J)
    (hinit : DenseTerm.Init formats (indexDimensions a) C tix σ)
    (hT : TensorsOK σ.heap σ.tensors)
    (f : Func F)
    (hgen : generateIr ofRat cap a formats (DenseTerm.graph C.full C.outT C.e) .evaluate = .ok f)
    (fuel : Nat) (hfuel : DenseTerm.fuelNeed C.dimOf false C.full ≤ fuel) :
    ∃ o', exec fuel (peepF f).body σ = .ok o' ∧ o'.ret = some (.int 0) ∧
      o'.iters ≤ DenseTerm.iters C.dimOf false C.full ∧
      DenseTerm.KernelPost ofRat C (tix C.outT.name) σ o'.st := by
  obtain ⟨o, eo, hret, hit, hpost⟩ :=
    DenseTerm.denseTerm_kernel_correct ofRat cap a formats C hout hz hf ok tix σ hob hok hinit f hgen fuel hfuel
  have S := ok.static
  rw [DenseTerm.denseTerm_generateIr_eq ofRat cap a formats C.full C.outT C.e hout S.out S.expr S.nodup hz hf]
    at hgen
  cases hgen
  obtain ⟨o', e', hst, hr', hi'⟩ := Opt.peep_transfer _ fuel σ o
    (Opt.DenseTerm.kernel_noRetype ofRat formats _ C ok) (Opt.DenseTerm.init_WT ofRat formats _ C hinit hT) eo
  exact ⟨o', e', hr'.trans hret, by omega, by rw [hst]; exact hpost⟩

/-- **T3 for the matrix product after the peephole optimiser**: `a(i,j) = Σ_k B(i,k) * C(k,j)`, all
dense, nest `i, k, j`. Under the hypotheses of `matmul_kernel_correct` (+ `FloatLaws`, `TensorsOK`)
the OPTIMISED kernel returns `0` and cell `ii * m + jj` of the fresh output block (exactly `n * m`
cells) holds `mmF … ii jj p = ((ofInt 0 + B[ii,0] * C[0,jj]) + …) + B[ii,p-1] * C[p-1,jj]`. -/
theorem matmul_kernel_correct_optimised (ofRat : Rat → F) (cap : Option Int) (an Bn Cn i j k : String)
    (k1 k2 : Nat) (formats : Formats) (outT tB tC : TensorId)
    (hij : i ≠ j) (hik : i ≠ k) (hjk : j ≠ k)
    (hout : tensorId 0 an formats [i, j] = some outT)
    (hf : Dense2.denseFormats formats = true)
    (hB : tB.indexes = [i, k]) (hC : tC.indexes = [k, j])
    (dimOf : String → Nat) (blkOf : String → Nat) (cellsOf : String → Nat → F)
    (tix : String → Nat) (σ : State F)
    (ok : DenseTerm.KernelOK formats [(i, an, 0), (j, an, 1), (k, Bn, 1)]
      ⟨DenseTerm.mmLv i j k, dimOf, outT, DenseTerm.mulE tB tC, σ.heap.length, blkOf, cellsOf⟩)
    (hok : ∀ ii, ii < dimOf i → ∀ jj, jj < dimOf j →
      DenseTerm.cellOK ofRat dimOf cellsOf (DenseTerm.mulE tB tC) (DenseTerm.mmLv i j k) [ii, jj])
    (hinit : DenseTerm.Init formats [(i, an, 0), (j, an, 1), (k, Bn, 1)]
      ⟨DenseTerm.mmLv i j k, dimOf, outT, DenseTerm.mulE tB tC, σ.heap.length, blkOf, cellsOf⟩ tix σ)
    (hT : TensorsOK σ.heap σ.tensors)
    (f : Func F)
    (hgen : generateIr ofRat cap (DenseTerm.mmAssign an Bn Cn i j k k1 k2) formats
      (DenseTerm.graph (DenseTerm.mmLv i j k) outT (DenseTerm.mulE tB tC)) .evaluate = .ok f)
    (fuel : Nat)
    (hfuel : dimOf i + 1 + (dimOf j + 1 + (dimOf k + 1 + (dimOf j + 1))) ≤ fuel) :
    ∃ o', exec fuel (peepF f).body σ = .ok o' ∧ o'.ret = some (.int 0) ∧
      o'.iters ≤ dimOf i * (dimOf j + dimOf k * (dimOf j + 1) + 1) ∧
      (∃ tr, σ.tensors[tix outT.name]? = some tr ∧
        o'.st.tensors[tix outT.name]? = some { tr with vals := .ptr σ.heap.length 0 }) ∧
      (∃ blk, o'.st.heap[σ.heap.length]? = some blk ∧ blk.live = true ∧ blk.owner = .output ∧
        blk.ty = .float ∧ blk.cells.length = dimOf i * dimOf j ∧
        ∀ ii, ii < dimOf i → ∀ jj, jj < dimOf j →
          blk.cells[ii * dimOf j + jj]? = some (some (.flt
            (DenseTerm.mmF (cellsOf tB.name) (cellsOf tC.name) (dimOf j) (dimOf k) ii jj (dimOf k))))) ∧
      (∀ b, b < σ.heap.length → o'.st.heap[b]? = σ.heap[b]?) ∧
      o'.st.heap.length = σ.heap.length + 1 ∧
      (∀ k', k' ≠ tix outT.name → o'.st.tensors[k']? = σ.tensors[k']?) := by
  obtain ⟨o, eo, hret, hit, h1, h2, h3, h4, h5⟩ :=
    DenseTerm.matmul_kernel_correct ofRat cap an Bn Cn i j k k1 k2 formats outT tB tC hij hik hjk hout hf hB hC
      dimOf blkOf cellsOf tix σ ok hok hinit f hgen fuel hfuel
  have hd := DenseTerm.indexDimensions_mm an Bn Cn i j k k1 k2 hij hik hjk
  have S := ok.static
  rw [DenseTerm.denseTerm_generateIr_eq ofRat cap _ formats (DenseTerm.mmLv i j k) outT (DenseTerm.mulE tB tC)
    hout S.out S.expr S.nodup (fun _ _ _ => rfl) hf, hd] at hgen
  cases hgen
  obtain ⟨o', e', hst, hr', hi'⟩ := Opt.peep_transfer _ fuel σ o
    (Opt.DenseTerm.kernel_noRetype ofRat formats _
      ⟨DenseTerm.mmLv i j k, dimOf, outT, DenseTerm.mulE tB tC, σ.heap.length, blkOf, cellsOf⟩ ok)
    (Opt.DenseTerm.init_WT ofRat formats _
      ⟨DenseTerm.mmLv i j k, dimOf, outT, DenseTerm.mulE tB tC, σ.heap.length, blkOf, cellsOf⟩ hinit hT) eo
  refine ⟨o', e', hr'.trans hret, by omega, ?_⟩
  rw [hst]
  exact ⟨h1, h2, h3, h4, h5⟩

/-- **not vacuous** (over `Int`; the matrix product `a(i,j) = Σ_k B(i,k) * C(k,j)`, dimensions
`2 × 3 × 2`, instance of `Props/C01DenseTerm.lean`): every hypothesis holds, the kernel is NOT in the
untyped stable fragment, and the OPTIMISED kernel returns `0` and leaves `[[58, 64], [139, 154]]` in
the fresh block `5` -/
example : ∃ f o', generateIr DenseTerm.exOfRat none DenseTerm.exAssign DenseTerm.exFormats
      (DenseTerm.graph DenseTerm.exLv DenseTerm.exOut DenseTerm.exE) .evaluate = .ok f ∧
    NoFloatIdentityS f.body = false ∧
    exec 13 (peepF f).body (DenseTerm.exStateOf (F := Int) id) = .ok o' ∧ o'.ret = some (.int 0) ∧
    o'.iters ≤ 24 ∧
    ∃ blk, o'.st.heap[5]? = some blk ∧ blk.live = true ∧
      blk.cells = [some (.flt 58), some (.flt 64), some (.flt 139), some (.flt 154)] := by
  have hgen : generateIr DenseTerm.exOfRat none DenseTerm.exAssign DenseTerm.exFormats
      (DenseTerm.graph DenseTerm.exLv DenseTerm.exOut DenseTerm.exE) .evaluate =
      .ok (DenseTerm.kernel DenseTerm.exOfRat DenseTerm.exFormats (indexDimensions DenseTerm.exAssign)
        DenseTerm.exLv DenseTerm.exOut DenseTerm.exE) :=
    DenseTerm.denseTerm_generateIr_eq DenseTerm.exOfRat none DenseTerm.exAssign DenseTerm.exFormats
      DenseTerm.exLv DenseTerm.exOut DenseTerm.exE (by rw [DenseTerm.exAssign_eq]; rfl)
      (by decide) (by decide) (by decide) (by decide) (by decide)
  have hgen' := hgen
  rw [DenseTerm.exAssign_eq] at hgen'
  have hT : TensorsOK (DenseTerm.exStateOf (F := Int) id).heap (DenseTerm.exStateOf (F := Int) id).tensors :=
    (agrees_WT (Γ := fun _ => none) (σ := DenseTerm.exStateOf (F := Int) id) (by decide)).tensors
  obtain ⟨o', eo, hret, hit, _, ⟨blk, hb, hlive, _, _, hlen, hcells⟩, _⟩ :=
    matmul_kernel_correct_optimised DenseTerm.exOfRat none "a" "B" "C" "i" "j" "k" 1 2 DenseTerm.exFormats
      DenseTerm.exOut DenseTerm.exB DenseTerm.exC (by decide)
      (by decide) (by decide) (by decide) (by decide) rfl rfl DenseTerm.exDimOf DenseTerm.exBlkOf
      (DenseTerm.exCellsOf (F := Int) id)
      DenseTerm.exTix (DenseTerm.exStateOf (F := Int) id) (DenseTerm.exKernelOK _)
      (fun ii _ jj _ => DenseTerm.cellOK_of_total (fun _ => rfl) _ _ _ _ _ _)
      (DenseTerm.exInitOf (F := Int) id) hT _ hgen' 13 (by decide)
  refine ⟨_, o', hgen, ?_, eo, hret, hit, blk, hb, hlive, ?_⟩
  · rw [DenseTerm.exAssign_eq]; decide
  have h4 : blk.cells.length = 4 := hlen
  have c00 := hcells 0 (by decide) 0 (by decide)
  have c01 := hcells 0 (by decide) 1 (by decide)
  have c10 := hcells 1 (by decide) 0 (by decide)
  have c11 := hcells 1 (by decide) 1 (by decide)
  match hcs : blk.cells, h4 with
  | [x0, x1, x2, x3], _ =>
    rw [hcs] at c00 c01 c10 c11
    simp [DenseTerm.exDimOf] at c00 c01 c10 c11
    rw [c00, c01, c10, c11]
    rfl

end TV.IR


/-! ## class Sparse1 -/

namespace TV.IR
open TV.Gen TV.Graph

variable {F : Type} [FloatOps F] [FloatLaws F]

/-- **S1 after the peephole optimiser (sparse vector copy / scale, compressed output).** Under the
hypotheses of `sparse1_kernel_correct` (S1), the float laws `FloatLaws F`, and well-typed tensor records
(`TensorsOK`), the OPTIMISED function `peepF f` — what the compiler really emits: `b_pos[0 + 1]`,
`p_a + 0 >= a_vals_capacity`, `true && …` and the literal identities of the user's expression are rewritten —
runs without error, **returns `0`** after at most `m` loop iterations, and ends in the SAME final state as
`f`: the output record (still output-owned, same order and dimensions block) has slot 0 = (`pos`, `crd`) and
`vals` = the base addresses of three different fresh live output blocks; `pos` is exactly `[0, m]`, `crd`
exactly `[crdB 0, …, crdB (m-1)]`, `vals` has exactly `m + 1` cells, the first `m` holding
`valueF ofRat (b ↦ cellsB j) e`; every other tensor record and every block of the initial heap is
unchanged. No `intOverflow` alternative. -/
theorem sparse1_kernel_correct_optimised (ofRat : Rat → F) (cap : Option Int) (a : Alg.DAssign)
    (formats : Formats) (i : String) (outT bT : TensorId) (e : IdExpr)
    (hout : tensorId 0 a.tname formats a.tidx = some outT)
    (ho : Sparse1.isSp i outT = true) (he : Sparse1.isExpr i bT e = true)
    (hf : Sparse1.sparseFormats formats = true)
    (hidx : a.tidx = [i]) (hrhs : Dense1.rhsIdx i a.rhs = true) (ok : Sparse1.KernelOK formats i outT bT)
    (hk0 : 1 ≤ Sparse1.capVal cap) (hk1 : Sparse1.capVal cap < 2147483648)
    (ta tb : Nat) (atr btr : TensorRec F) (n : Int) (m bpb bcb bvb : Nat) (crdB : Nat → Int)
    (cellsB : Nat → F) (σ : State F)
    (init : Sparse1.Init outT bT ta tb atr btr n m bpb bcb bvb crdB cellsB σ)
    (hm : m ≤ 1073741824)
    (hsorted : ∀ j k, j < k → k < m → crdB j < crdB k)
    (hrng : ∀ j, j < m → -2147483648 ≤ crdB j ∧ crdB j < 2147483648)
    (hfin : ∀ q, q < m → ToIr.AllFinite ofRat (fun _ => cellsB q) e)
    (hT : TensorsOK σ.heap σ.tensors)
    (f : Func F) (hgen : generateIr ofRat cap a formats (Sparse1.graph i outT e) .evaluate = .ok f)
    (fuel : Nat) (hfuel : m + 1 ≤ fuel) :
    ∃ o', exec fuel (peepF f).body σ = .ok o' ∧ o'.ret = some (.int 0) ∧ o'.iters ≤ m ∧
      (∃ tr' pF cF vF vblk, o'.st.tensors[ta]? = some tr' ∧ tr'.owner = .output ∧ tr'.order = atr.order ∧
        tr'.dimsBlk = atr.dimsBlk ∧ tr'.slots = atr.slots.set 0 (some (.ptr pF 0, .ptr cF 0)) ∧
        tr'.vals = .ptr vF 0 ∧
        σ.heap.length ≤ pF ∧ σ.heap.length ≤ cF ∧ σ.heap.length ≤ vF ∧ pF ≠ cF ∧ pF ≠ vF ∧ cF ≠ vF ∧
        o'.st.heap[pF]? = some ⟨.int, [some (.int 0), some (.int m)], .output, true⟩ ∧
        o'.st.heap[cF]? = some ⟨.int, (List.range m).map (fun j => some (.int (crdB j))), .output, true⟩ ∧
        o'.st.heap[vF]? = some vblk ∧ vblk.live = true ∧ vblk.owner = .output ∧ vblk.ty = .float ∧
        vblk.cells.length = m + 1 ∧
        ∀ j, j < m → vblk.cells[j]? = some (some (.flt (ToIr.valueF ofRat (fun _ => cellsB j) e)))) ∧
      (∀ k, k ≠ ta → o'.st.tensors[k]? = σ.tensors[k]?) ∧
      o'.st.tensors.length = σ.tensors.length ∧
      (∀ k, k < σ.heap.length → o'.st.heap[k]? = σ.heap[k]?) := by
  obtain ⟨o, eo, hret, hit, h1, h2, h3, h4⟩ :=
    Sparse1.sparse1_kernel_correct ofRat cap a formats i outT bT e hout ho he hf hidx hrhs ok hk0 hk1 ta tb
      atr btr n m bpb bcb bvb crdB cellsB σ init hm hsorted hrng hfin f hgen fuel hfuel
  rw [Sparse1.sparse1_generateIr_eq ofRat cap a formats i outT bT e hout ho he hf hidx hrhs] at hgen
  cases hgen
  obtain ⟨o', e', hst, hr', hi'⟩ := Opt.peep_transfer _ fuel σ o
    (Opt.Sparse1.kernel_noRetype ofRat cap formats i outT bT e ho he ok)
    (Opt.Sparse1.init_WT ofRat cap formats i outT bT e ok.fmt init hT) eo
  refine ⟨o', e', hr'.trans hret, by omega, ?_⟩
  rw [hst]
  exact ⟨h1, h2, h3, h4⟩

omit [FloatLaws F] in
/-- the fact behind it, for every kernel of the class: the kernel term lies in the typed stable fragment
relative to its own typing (proved for symbolic names, every capacity parameter and every right-hand side of
the class) -/
theorem sparse1_kernel_noRetype (ofRat : Rat → F) (cap : Option Int) (formats : Formats) (i : String)
    (outT bT : TensorId) (e : IdExpr) (ho : Sparse1.isSp i outT = true)
    (he : Sparse1.isExpr i bT e = true) (ok : Sparse1.KernelOK formats i outT bT) :
    (Sparse1.kernel ofRat cap formats i outT bT e).noRetype = true :=
  Opt.Sparse1.kernel_noRetype ofRat cap formats i outT bT e ho he ok

/-- **not vacuous** (over `Int`; `a(i) = 2 * b(i)`, `b = {1: 2, 3: 5}`, dimension 5, initial capacity 1):
every hypothesis holds on the instance of `Props/C01Sparse1.lean`, the tensor records of the state are well
typed (`State.agrees`, decided), and the OPTIMISED kernel returns `0` and leaves `pos = [0, 2]`,
`crd = [1, 3]`, `vals = [4, 10, ·]` in fresh blocks the output record points to -/
example : ∃ f o', generateIr Sparse1.exOfRat (some 1) Sparse1.exAssign Sparse1.exFormats
      (Sparse1.graph "i" Sparse1.exOut Sparse1.exE) .evaluate = .ok f ∧
    exec 3 (peepF f).body (Sparse1.exStateOf (F := Int) id) = .ok o' ∧ o'.ret = some (.int 0) ∧
    ∃ tr' pF cF vF vblk, o'.st.tensors[0]? = some tr' ∧
      tr'.slots = [some (.ptr pF 0, .ptr cF 0)] ∧ tr'.vals = .ptr vF 0 ∧
      o'.st.heap[pF]? = some ⟨.int, [some (.int 0), some (.int 2)], .output, true⟩ ∧
      o'.st.heap[cF]? = some ⟨.int, [some (.int 1), some (.int 3)], .output, true⟩ ∧
      o'.st.heap[vF]? = some vblk ∧ vblk.live = true ∧ vblk.cells.length = 3 ∧
      vblk.cells[0]? = some (some (.flt 4)) ∧ vblk.cells[1]? = some (some (.flt 10)) := by
  have hgen := Sparse1.sparse1_generateIr_eq Sparse1.exOfRat (some 1) Sparse1.exAssign Sparse1.exFormats "i"
    Sparse1.exOut Sparse1.exB Sparse1.exE (by decide) (by decide) (by decide) (by decide) rfl (by decide)
  have hT : TensorsOK (Sparse1.exStateOf (F := Int) id).heap (Sparse1.exStateOf (F := Int) id).tensors :=
    (agrees_WT (Γ := fun _ => none) (σ := Sparse1.exStateOf (F := Int) id) (by decide)).tensors
  obtain ⟨o', eo, hret, _, ⟨tr', pF, cF, vF, vblk, h1, _, _, _, h5, h6, _, _, _, _, _, _, h13, h14, h15, h16,
    _, _, h19, h20⟩, _⟩ :=
    sparse1_kernel_correct_optimised Sparse1.exOfRat (some 1) Sparse1.exAssign Sparse1.exFormats "i"
      Sparse1.exOut Sparse1.exB Sparse1.exE (by decide) (by decide) (by decide) (by decide) rfl (by decide)
      Sparse1.exKernelOK (by decide) (by decide) 0 1 _ _ 5 2 2 3 4 Sparse1.exCrd
      (Sparse1.exCells (F := Int) id) _ (Sparse1.exInitOf (F := Int) id) (by decide) Sparse1.exSorted
      Sparse1.exRange (fun q _ => ToIr.Ex.allFinite_int _ _ _) hT _ hgen 3 (by decide)
  exact ⟨_, o', hgen, eo, hret, tr', pF, cF, vF, vblk, h1, h5, h6, h13, h14, h15, h16, h19,
    h20 0 (by decide), h20 1 (by decide)⟩

end TV.IR


/-! ## class Spmul -/

namespace TV.IR
open TV.Gen TV.Graph

variable {F : Type} [FloatOps F] [FloatLaws F]

/-- **W3 after the peephole optimiser (element-wise product of two sparse vectors, `a(i) = b(i) * c(i)`, all
compressed).** Under the hypotheses of `spmul_kernel_correct` (W3), the float laws `FloatLaws F`, and
well-typed tensor records (`TensorsOK`), the OPTIMISED function `peepF f` — what the compiler really emits:
the tests `true && p_b < p_b_end`, `true && i_b == i`, the offsets `0 + 1`, `p_a + 0`, the literal products
of the default capacity are rewritten — runs without error, **returns `0`** after at most
`|mergeTrace| ≤ mb + mc` loop iterations, and ends in the SAME final state as `f`: with
`H := intersect (assoc mb crdB cellsB) (assoc mc crdC cellsC)`, the output record (still output-owned, same
order and dimensions block) has slot 0 = (`pos`, `crd`) and `vals` = the base addresses of three different
FRESH live output blocks, `pos = [0, |H|]`, `crd` = exactly the coordinates of `H`, `vals` of `|H| + 1` cells
the first `|H|` holding the values of `H`; every other tensor record and every block of the initial heap is
unchanged. No `intOverflow` alternative. -/
theorem spmul_kernel_correct_optimised (ofRat : Rat → F) (cap : Option Int) (a : Alg.DAssign)
    (formats : Formats) (i : String) (outT bT cT : TensorId)
    (hout : tensorId 0 a.tname formats a.tidx = some outT)
    (hcl : Spmul.isClass i outT bT cT = true) (hf : Sparse1.sparseFormats formats = true)
    (hidx : a.tidx = [i]) (hrhs : Dense1.rhsIdx i a.rhs = true) (ok : Spmul.KernelOK formats i outT bT cT)
    (hk0 : 1 ≤ Sparse1.capVal cap) (hk1 : Sparse1.capVal cap < 2147483648)
    (ta : Nat) (atr : TensorRec F) (n : Int)
    (tb : Nat) (btr : TensorRec F) (mb bpb bcb bvb : Nat) (crdB : Nat → Int) (cellsB : Nat → F)
    (tc : Nat) (ctr : TensorRec F) (mc cpb ccb cvb : Nat) (crdC : Nat → Int) (cellsC : Nat → F)
    (σ : State F)
    (init : Spmul.Init outT bT cT ta atr n tb btr mb bpb bcb bvb crdB cellsB tc ctr mc cpb ccb cvb crdC
      cellsC σ)
    (hT : TensorsOK σ.heap σ.tensors)
    (hmb : mb ≤ 1073741824) (hmc : mc ≤ 1073741824)
    (hrngB : ∀ j, j < mb → -2147483648 ≤ crdB j ∧ crdB j < 2147483648)
    (hrngC : ∀ j, j < mc → -2147483648 ≤ crdC j ∧ crdC j < 2147483648)
    (hfin : ∀ q r, q < mb → r < mc → crdB q = crdC r →
      ToIr.AllFinite ofRat (Spmul.env bT (cellsB q) (cellsC r)) (Spmul.mulE bT cT))
    (f : Func F) (hgen : generateIr ofRat cap a formats (Spmul.graph i outT bT cT) .evaluate = .ok f)
    (fuel : Nat) (hfuel : mb + mc + 1 ≤ fuel) :
    ∃ o', exec fuel (peepF f).body σ = .ok o' ∧ o'.ret = some (.int 0) ∧ o'.iters ≤ mb + mc ∧
      o'.iters ≤ (Merge.mergeTrace [⟨Sparse1.inLeaf bT, bcb, crdB, 0, mb⟩,
        ⟨Sparse1.inLeaf cT, ccb, crdC, 0, mc⟩]).length ∧
      (∃ tr' pF cF vF vblk, o'.st.tensors[ta]? = some tr' ∧ tr'.owner = .output ∧ tr'.order = atr.order ∧
        tr'.dimsBlk = atr.dimsBlk ∧ tr'.slots = atr.slots.set 0 (some (.ptr pF 0, .ptr cF 0)) ∧
        tr'.vals = .ptr vF 0 ∧
        σ.heap.length ≤ pF ∧ σ.heap.length ≤ cF ∧ σ.heap.length ≤ vF ∧ pF ≠ cF ∧ pF ≠ vF ∧ cF ≠ vF ∧
        o'.st.heap[pF]? = some ⟨.int, [some (.int 0), some (.int
          (Spmul.intersect (Spmul.assoc mb crdB cellsB) (Spmul.assoc mc crdC cellsC)).length)], .output, true⟩ ∧
        o'.st.heap[cF]? = some ⟨.int,
          (Spmul.intersect (Spmul.assoc mb crdB cellsB) (Spmul.assoc mc crdC cellsC)).map
            (fun p => some (.int p.1)), .output, true⟩ ∧
        o'.st.heap[vF]? = some vblk ∧ vblk.live = true ∧ vblk.owner = .output ∧ vblk.ty = .float ∧
        vblk.cells.length =
          (Spmul.intersect (Spmul.assoc mb crdB cellsB) (Spmul.assoc mc crdC cellsC)).length + 1 ∧
        ∀ j (h : j < (Spmul.intersect (Spmul.assoc mb crdB cellsB) (Spmul.assoc mc crdC cellsC)).length),
          vblk.cells[j]? = some (some (.flt
            (Spmul.intersect (Spmul.assoc mb crdB cellsB) (Spmul.assoc mc crdC cellsC))[j].2))) ∧
      (∀ k, k ≠ ta → o'.st.tensors[k]? = σ.tensors[k]?) ∧
      o'.st.tensors.length = σ.tensors.length ∧
      (∀ k, k < σ.heap.length → o'.st.heap[k]? = σ.heap[k]?) := by
  obtain ⟨o, eo, hret, hit1, hit2, h1, h2, h3, h4⟩ :=
    Spmul.spmul_kernel_correct ofRat cap a formats i outT bT cT hout hcl hf hidx hrhs ok hk0 hk1 ta atr n
      tb btr mb bpb bcb bvb crdB cellsB tc ctr mc cpb ccb cvb crdC cellsC σ init hmb hmc hrngB hrngC hfin f hgen
      fuel hfuel
  rw [Spmul.spmul_generateIr_eq ofRat cap a formats i outT bT cT hout hcl hf hidx hrhs] at hgen
  cases hgen
  obtain ⟨o', e', hst, hr', hi'⟩ := Opt.peep_transfer _ fuel σ o
    (Opt.Spmul.kernel_noRetype ofRat cap formats i outT bT cT hcl ok)
    (Opt.Spmul.init_WT ofRat cap formats i outT bT cT ok init hT) eo
  refine ⟨o', e', hr'.trans hret, by omega, by omega, ?_⟩
  rw [hst]
  exact ⟨h1, h2, h3, h4⟩

omit [FloatLaws F] in
/-- the fact behind it, for every kernel of the class: the kernel term lies in the typed stable fragment
relative to its own typing (symbolic index / tensor names, every initial capacity) -/
theorem spmul_kernel_noRetype (ofRat : Rat → F) (cap : Option Int) (formats : Formats) (i : String)
    (outT bT cT : TensorId) (hcl : Spmul.isClass i outT bT cT = true)
    (ok : Spmul.KernelOK formats i outT bT cT) :
    (Spmul.kernel ofRat cap formats i outT bT cT).noRetype = true :=
  Opt.Spmul.kernel_noRetype ofRat cap formats i outT bT cT hcl ok

/-- **not vacuous** (over `Int`; `b = {0:1, 2:2, 5:3}`, `c = {2:10, 3:20, 5:30}`, initial capacity 1): every
hypothesis holds on the instance of `Props/C01Spmul.lean`, the tensor records of the state are well typed
(`State.agrees`, decided), and the OPTIMISED kernel returns `0` and leaves `pos = [0, 2]`, `crd = [2, 5]`,
`vals = [20, 90, ·]` in fresh blocks the output record points to -/
example : ∃ f o', generateIr Spmul.exOfRat (some 1) Spmul.exAssign Spmul.exFormats
      (Spmul.graph "i" Spmul.exOut Spmul.exB Spmul.exC) .evaluate = .ok f ∧
    exec 7 (peepF f).body (Spmul.exStateOf (F := Int) id) = .ok o' ∧ o'.ret = some (.int 0) ∧
    o'.iters ≤ 4 ∧
    (∃ tr' pF cF vF vblk, o'.st.tensors[0]? = some tr' ∧
      tr'.slots = [some (.ptr pF 0, .ptr cF 0)] ∧ tr'.vals = .ptr vF 0 ∧
      o'.st.heap[pF]? = some ⟨.int, [some (.int 0), some (.int 2)], .output, true⟩ ∧
      o'.st.heap[cF]? = some ⟨.int, [some (.int 2), some (.int 5)], .output, true⟩ ∧
      o'.st.heap[vF]? = some vblk ∧ vblk.live = true ∧ vblk.cells.length = 3 ∧
      vblk.cells[0]? = some (some (.flt 20)) ∧ vblk.cells[1]? = some (some (.flt 90))) := by
  have hgen := Spmul.spmul_generateIr_eq Spmul.exOfRat (some 1) Spmul.exAssign Spmul.exFormats "i"
    Spmul.exOut Spmul.exB Spmul.exC (by decide) (by decide) (by decide) rfl (by decide)
  have hT : TensorsOK (Spmul.exStateOf (F := Int) id).heap (Spmul.exStateOf (F := Int) id).tensors :=
    (agrees_WT (Γ := fun _ => none) (σ := Spmul.exStateOf (F := Int) id) (by decide)).tensors
  obtain ⟨o', eo, hret, _, hit, ⟨tr', pF, cF, vF, vblk, h1, _, _, _, h5, h6, _, _, _, _, _, _, h13, h14, h15,
    h16, _, _, h19, h20⟩, _, _, _⟩ :=
    spmul_kernel_correct_optimised Spmul.exOfRat (some 1) Spmul.exAssign Spmul.exFormats "i" Spmul.exOut
      Spmul.exB Spmul.exC (by decide) (by decide) (by decide) rfl (by decide) Spmul.exKernelOK (by decide)
      (by decide) 0 _ 6 1 _ 3 2 3 4 Spmul.exCrdB (Spmul.exCellsB (F := Int) id) 2 _ 3 6 7 8 Spmul.exCrdC
      (Spmul.exCellsC (F := Int) id) _ (Spmul.exInitOf (F := Int) id) hT (by decide) (by decide)
      Spmul.exRangeB Spmul.exRangeC (fun q r _ _ _ => ToIr.Ex.allFinite_int _ _ _) _ hgen 7 (by decide)
  rw [Spmul.exTrace] at hit
  rw [Spmul.exIntersect] at h13 h14 h19 h20
  exact ⟨_, o', hgen, eo, hret, hit, ⟨tr', pF, cF, vF, vblk, h1, h5, h6, h13, h14, h15, h16, h19,
    h20 0 (by decide), h20 1 (by decide)⟩⟩

end TV.IR


/-! ## class Spadd -/

namespace TV.IR
open TV.Gen TV.Graph

variable {F : Type} [FloatOps F] [FloatLaws F]

/-- **X4 after the peephole optimiser (element-wise SUM of two sparse vectors, union merge).** Under the
hypotheses of `spadd_kernel_correct` (X4), the float laws `FloatLaws F`, and well-typed tensor records
(`TensorsOK`), the OPTIMISED function `peepF f` — what the compiler really emits: the loop conditions
`true && p_b < p_b_end`, the branch conditions `(true && i_b == i) && i_c == i`, the constants `1 + 1`,
`0 + 1` and `1024 * 1024` are rewritten — runs without error, **returns `0`** after at most
`|union b c| ≤ mb + mc` loop iterations, and ends in the SAME final state as `f`: with
`H := union (assoc mb crdB cellsB) (assoc mc crdC cellsC)`, the output record (still output-owned, same order
and dimensions block) has slot 0 = (`pos`, `crd`) and `vals` = the base addresses of three different FRESH
blocks, live and output-owned; `pos` is exactly `[0, |H|]`, `crd` exactly the coordinates of `H`, `vals` has
exactly `|H| + 1` cells, the first `|H|` holding the values of `H`; every other tensor record and EVERY block
of the initial heap (all inputs) is unchanged. No `intOverflow` alternative. -/
theorem spadd_kernel_correct_optimised (ofRat : Rat → F) (cap : Option Int) (a : Alg.DAssign)
    (formats : Formats) (i : String) (outT bT cT : TensorId)
    (hout : tensorId 0 a.tname formats a.tidx = some outT)
    (hcl : Spmul.isClass i outT bT cT = true) (hf : Sparse1.sparseFormats formats = true)
    (hidx : a.tidx = [i]) (hrhs : Dense1.rhsIdx i a.rhs = true) (ok : Spmul.KernelOK formats i outT bT cT)
    (hk0 : 1 ≤ Sparse1.capVal cap) (hk1 : Sparse1.capVal cap < 2147483648)
    (ta : Nat) (atr : TensorRec F) (n : Int)
    (tb : Nat) (btr : TensorRec F) (mb bpb bcb bvb : Nat) (crdB : Nat → Int) (cellsB : Nat → F)
    (tc : Nat) (ctr : TensorRec F) (mc cpb ccb cvb : Nat) (crdC : Nat → Int) (cellsC : Nat → F)
    (σ : State F)
    (init : Spmul.Init outT bT cT ta atr n tb btr mb bpb bcb bvb crdB cellsB tc ctr mc cpb ccb cvb crdC
      cellsC σ)
    (hsum : mb + mc ≤ 1073741824)
    (hrngB : ∀ j, j < mb → -2147483648 ≤ crdB j ∧ crdB j < 2147483648)
    (hrngC : ∀ j, j < mc → -2147483648 ≤ crdC j ∧ crdC j < 2147483648)
    (hfB : ∀ q, q < mb → FloatOps.finite (cellsB q) = true)
    (hfC : ∀ r, r < mc → FloatOps.finite (cellsC r) = true)
    (hfS : ∀ q r, q < mb → r < mc → crdB q = crdC r →
      FloatOps.finite (FloatOps.add (cellsB q) (cellsC r)) = true)
    (hT : TensorsOK σ.heap σ.tensors)
    (f : Func F) (hgen : generateIr ofRat cap a formats (Spadd.graph i outT bT cT) .evaluate = .ok f)
    (fuel : Nat) (hfuel : mb + mc + 1 ≤ fuel) :
    ∃ o', exec fuel (peepF f).body σ = .ok o' ∧ o'.ret = some (.int 0) ∧ o'.iters ≤ mb + mc ∧
      o'.iters ≤ (Spadd.union (Spmul.assoc mb crdB cellsB) (Spmul.assoc mc crdC cellsC)).length ∧
      (∃ tr' pF cF vF vblk, o'.st.tensors[ta]? = some tr' ∧ tr'.owner = .output ∧ tr'.order = atr.order ∧
        tr'.dimsBlk = atr.dimsBlk ∧ tr'.slots = atr.slots.set 0 (some (.ptr pF 0, .ptr cF 0)) ∧
        tr'.vals = .ptr vF 0 ∧
        σ.heap.length ≤ pF ∧ σ.heap.length ≤ cF ∧ σ.heap.length ≤ vF ∧ pF ≠ cF ∧ pF ≠ vF ∧ cF ≠ vF ∧
        o'.st.heap[pF]? = some ⟨.int, [some (.int 0), some (.int
          (Spadd.union (Spmul.assoc mb crdB cellsB) (Spmul.assoc mc crdC cellsC)).length)], .output, true⟩ ∧
        o'.st.heap[cF]? = some ⟨.int,
          (Spadd.union (Spmul.assoc mb crdB cellsB) (Spmul.assoc mc crdC cellsC)).map
            (fun p => some (.int p.1)), .output, true⟩ ∧
        o'.st.heap[vF]? = some vblk ∧ vblk.live = true ∧ vblk.owner = .output ∧ vblk.ty = .float ∧
        vblk.cells.length =
          (Spadd.union (Spmul.assoc mb crdB cellsB) (Spmul.assoc mc crdC cellsC)).length + 1 ∧
        ∀ j (h : j < (Spadd.union (Spmul.assoc mb crdB cellsB) (Spmul.assoc mc crdC cellsC)).length),
          vblk.cells[j]? = some (some (.flt
            (Spadd.union (Spmul.assoc mb crdB cellsB) (Spmul.assoc mc crdC cellsC))[j].2))) ∧
      (∀ k, k ≠ ta → o'.st.tensors[k]? = σ.tensors[k]?) ∧
      o'.st.tensors.length = σ.tensors.length ∧
      (∀ k, k < σ.heap.length → o'.st.heap[k]? = σ.heap[k]?) := by
  obtain ⟨o, eo, hret, hit1, hit2, h1, h2, h3, h4⟩ :=
    Spadd.spadd_kernel_correct ofRat cap a formats i outT bT cT hout hcl hf hidx hrhs ok hk0 hk1 ta atr n
      tb btr mb bpb bcb bvb crdB cellsB tc ctr mc cpb ccb cvb crdC cellsC σ init hsum hrngB hrngC hfB hfC hfS
      f hgen fuel hfuel
  rw [Spadd.spadd_generateIr_eq ofRat cap a formats i outT bT cT hout hcl hf hidx hrhs] at hgen
  cases hgen
  obtain ⟨o', e', hst, hr', hi'⟩ := Opt.peep_transfer _ fuel σ o
    (Opt.Spadd.kernel_noRetype ofRat cap formats i outT bT cT hcl ok)
    (Opt.Spadd.init_WT ofRat cap formats i outT bT cT ok init hT) eo
  refine ⟨o', e', hr'.trans hret, by omega, by omega, ?_⟩
  rw [hst]
  exact ⟨h1, h2, h3, h4⟩

omit [FloatLaws F] in
/-- the fact behind it, for every kernel of the class: the kernel term lies in the typed stable fragment
relative to its own typing (PROVED for symbolic index / tensor names and every initial capacity) -/
theorem spadd_kernel_noRetype (ofRat : Rat → F) (cap : Option Int) (formats : Formats) (i : String)
    (outT bT cT : TensorId) (hcl : Spmul.isClass i outT bT cT = true)
    (ok : Spmul.KernelOK formats i outT bT cT) :
    (Spadd.kernel ofRat cap formats i outT bT cT).noRetype = true :=
  Opt.Spadd.kernel_noRetype ofRat cap formats i outT bT cT hcl ok

/-- **not vacuous** (over `Int`; `b = {0:1, 2:2, 5:3}`, `c = {2:10, 3:20}`, initial capacity 1): every
hypothesis holds on the instance of `Props/C01Spadd.lean`, the tensor records of the state are well typed
(`State.agrees`, decided), and the OPTIMISED kernel returns `0` and leaves `pos = [0, 4]`,
`crd = [0, 2, 3, 5]`, `vals = [1, 12, 20, 3, ·]` in fresh blocks the output record points to -/
example : ∃ f o', generateIr Spmul.exOfRat (some 1) Spadd.exAssign Spmul.exFormats
      (Spadd.graph "i" Spmul.exOut Spmul.exB Spmul.exC) .evaluate = .ok f ∧
    exec 6 (peepF f).body (Spadd.exStateOf (F := Int) id) = .ok o' ∧ o'.ret = some (.int 0) ∧
    (∃ tr' pF cF vF vblk, o'.st.tensors[0]? = some tr' ∧
      tr'.slots = [some (.ptr pF 0, .ptr cF 0)] ∧ tr'.vals = .ptr vF 0 ∧
      o'.st.heap[pF]? = some ⟨.int, [some (.int 0), some (.int 4)], .output, true⟩ ∧
      o'.st.heap[cF]? = some ⟨.int, [some (.int 0), some (.int 2), some (.int 3), some (.int 5)], .output, true⟩ ∧
      o'.st.heap[vF]? = some vblk ∧ vblk.live = true ∧ vblk.cells.length = 5 ∧
      vblk.cells[0]? = some (some (.flt 1)) ∧ vblk.cells[1]? = some (some (.flt 12)) ∧
      vblk.cells[2]? = some (some (.flt 20)) ∧ vblk.cells[3]? = some (some (.flt 3))) := by
  have hgen := Spadd.spadd_generateIr_eq Spmul.exOfRat (some 1) Spadd.exAssign Spmul.exFormats "i" Spmul.exOut
    Spmul.exB Spmul.exC (by decide) (by decide) (by decide) rfl (by decide)
  have hT : TensorsOK (Spadd.exStateOf (F := Int) id).heap (Spadd.exStateOf (F := Int) id).tensors :=
    (agrees_WT (Γ := fun _ => none) (σ := Spadd.exStateOf (F := Int) id) (by decide)).tensors
  obtain ⟨o', eo, hret, _, _, ⟨tr', pF, cF, vF, vblk, h1, _, _, _, h5, h6, _, _, _, _, _, _, h13, h14, h15, h16,
    _, _, h19, h20⟩, _, _, _⟩ :=
    spadd_kernel_correct_optimised Spmul.exOfRat (some 1) Spadd.exAssign Spmul.exFormats "i" Spmul.exOut
      Spmul.exB Spmul.exC (by decide) (by decide)
      (by decide) rfl (by decide) Spmul.exKernelOK (by decide) (by decide) 0 _ 6 1 _ 3 2 3 4 Spmul.exCrdB
      (Spmul.exCellsB (F := Int) id) 2 _ 2 6 7 8 Spadd.exCrdC (Spadd.exCellsC (F := Int) id) _
      (Spadd.exInitOf (F := Int) id)
      (by decide) Spmul.exRangeB Spadd.exRangeC (fun _ _ => rfl) (fun _ _ => rfl) (fun _ _ _ _ _ => rfl) hT _
      hgen 6 (by decide)
  rw [Spadd.exUnion] at h13 h14 h19 h20
  exact ⟨_, o', hgen, eo, hret, tr', pF, cF, vF, vblk, h1, h5, h6, h13, h14, h15, h16, h19,
    h20 0 (by decide), h20 1 (by decide), h20 2 (by decide), h20 3 (by decide)⟩


end TV.IR


/-! ## class Sparse2 -/

namespace TV.IR
open TV.Gen TV.Graph

variable {F : Type} [FloatOps F] [FloatLaws F]

/-- **Z4 after the peephole optimiser (sparse matrix copy/scale kernels, `a(i,j) = e(b(i,j))`, both matrices
doubly compressed).** Under the hypotheses of `sparse2_kernel_correct` (Z4), the float laws `FloatLaws F`,
and well-typed tensor records (`TensorsOK`), the OPTIMISED function `peepF f` — what the compiler really
emits: the loop conditions `true && p_b_l < p_b_l_end` and the tests `true && i_b_l == i` lose their `true`,
the literal identities of the user's expression are rewritten — runs without error, **returns `0`**, makes at
most `R + nnz` loop iterations, and ends in the SAME final state as `f`: the output record has slot 0 =
(`pos0`, `crd0`), slot 1 = (`pos1`, `crd1`) and `vals` = the base addresses of five different fresh blocks with
exactly the contents Z4 states; every other tensor record and every block of the initial heap is unchanged.
No `intOverflow` alternative. -/
theorem sparse2_kernel_correct_optimised (ofRat : Rat → F) (cap : Option Int) (a : Alg.DAssign)
    (formats : Formats) (i j : String) (outT bT : TensorId) (e : IdExpr)
    (hout : tensorId 0 a.tname formats a.tidx = some outT) (hf : Sparse2.ssFormats formats = true)
    (hidx : a.tidx = [i, j]) (hrhs : DenseN.rhsIdx [i, j] a.rhs = true)
    (hfmt : formats.map (·.1) = [outT.name, bT.name])
    (hk0 : 1 ≤ Sparse1.capVal cap) (hk1 : Sparse1.capVal cap < 2147483648)
    (d : Sparse2.BData F) (ta tb : Nat) (atr btr : TensorRec F) (n m : Int) (bp0 bc0 bp1 bc1 bv : Nat)
    (σ : State F)
    (ok : (Sparse2.Ctx.mk ofRat i j outT bT e d σ.heap σ.tensors ta bp0 bc0 bp1 bc1 bv).OK)
    (init : Sparse2.Init (Sparse2.Ctx.mk ofRat i j outT bT e d σ.heap σ.tensors ta bp0 bc0 bp1 bc1 bv)
      atr btr tb n m σ)
    (hT : TensorsOK σ.heap σ.tensors)
    (f : Func F) (hgen : generateIr ofRat cap a formats (Sparse2.graph i j outT e) .evaluate = .ok f)
    (fuel : Nat) (hfuel : d.R + d.nnz + 2 ≤ fuel) :
    ∃ o', exec fuel (peepF f).body σ = .ok o' ∧ o'.ret = some (.int 0) ∧ o'.iters ≤ d.R + d.nnz ∧
      (∃ tr' p0 c0 p1 c1 v vblk, o'.st.tensors[ta]? = some tr' ∧ tr'.owner = .output ∧
        tr'.order = atr.order ∧ tr'.dimsBlk = atr.dimsBlk ∧
        tr'.slots = (atr.slots.set 0 (some (.ptr p0 0, .ptr c0 0))).set 1 (some (.ptr p1 0, .ptr c1 0)) ∧
        tr'.vals = .ptr v 0 ∧
        [p0, c0, p1, c1, v].Nodup ∧ (∀ x ∈ [p0, c0, p1, c1, v], σ.heap.length ≤ x) ∧
        o'.st.heap[p0]? = some ⟨.int, [some (.int 0), some (.int ((d.kept d.R).length : Int))], .output, true⟩ ∧
        o'.st.heap[c0]? = some ⟨.int, (d.outCrd0 d.R).map (fun z => some (.int z)), .output, true⟩ ∧
        o'.st.heap[p1]? = some ⟨.int, (d.outPos1 d.R).map (fun z => some (.int z)), .output, true⟩ ∧
        o'.st.heap[c1]? = some ⟨.int, (List.range d.nnz).map (fun q => some (.int (d.crd1 q))), .output, true⟩ ∧
        o'.st.heap[v]? = some vblk ∧ vblk.live = true ∧ vblk.owner = .output ∧ vblk.ty = .float ∧
        vblk.cells.length = d.nnz + 1 ∧
        ∀ q, q < d.nnz → vblk.cells[q]? = some (some (.flt (ToIr.valueF ofRat (fun _ => d.vals q) e)))) ∧
      (∀ k, k ≠ ta → o'.st.tensors[k]? = σ.tensors[k]?) ∧
      o'.st.tensors.length = σ.tensors.length ∧
      (∀ k, k < σ.heap.length → o'.st.heap[k]? = σ.heap[k]?) := by
  obtain ⟨o, eo, hret, hit, h1, h2, h3, h4⟩ :=
    Sparse2.sparse2_kernel_correct ofRat cap a formats i j outT bT e hout hf hidx hrhs hfmt hk0 hk1 d ta tb
      atr btr n m bp0 bc0 bp1 bc1 bv σ ok init f hgen fuel hfuel
  rw [Sparse2.sparse2_generateIr_eq ofRat cap a formats i j outT bT e hout ok.hij ok.ho ok.he hf hidx hrhs]
    at hgen
  cases hgen
  obtain ⟨o', e', hst, hr', hi'⟩ := Opt.peep_transfer _ fuel σ o
    (Opt.Sparse2.kernel_noRetype_of_OK ok cap formats hfmt)
    (Opt.Sparse2.init_WT cap formats hfmt init hT) eo
  refine ⟨o', e', hr'.trans hret, by omega, ?_⟩
  rw [hst]
  exact ⟨h1, h2, h3, h4⟩

omit [FloatLaws F] in
/-- the fact behind it, for every kernel of the class: the kernel term lies in the typed stable fragment
relative to its own typing (`Func.noRetype`, PROVED for symbolic names and every right-hand side of the
class) -/
theorem sparse2_kernel_noRetype (ofRat : Rat → F) (cap : Option Int) (formats : Formats) (i j : String)
    (outT bT : TensorId) (e : IdExpr) (hN : (Sparse2.allNames i j outT bT).Nodup)
    (hfmt : formats.map (·.1) = [outT.name, bT.name])
    (ho : Sparse2.isSS i j outT = true) (he : Sparse2.isExpr i j bT e = true) :
    (Sparse2.kernel ofRat cap formats i j outT bT e).noRetype = true :=
  Opt.Sparse2.kernel_noRetype ofRat cap formats i j outT bT e hN hfmt ho he

/-- **not vacuous** (over `Int`, initial capacity 1; the instance of `Props/C01Sparse2.lean`,
`a(i,j) = 2 * b(i,j)`): every hypothesis holds, the tensor records of the state are well typed
(`State.agrees`, decided), and the OPTIMISED kernel returns `0` after at most `6` iterations and leaves
`pos0 = [0, 2]`, `crd0 = [0, 3]`, `pos1 = [0, 1, 3]`, `crd1 = [1, 0, 2]`, `vals = [4, 10, 14, ·]` in fresh
blocks the output record points to -/
example : ∃ f o', generateIr Sparse2.exOfRat (some 1) Sparse2.exAssign Sparse2.exFormats
      (Sparse2.graph "i" "j" Sparse2.exOut Sparse2.exE) .evaluate = .ok f ∧
    exec 8 (peepF f).body (Sparse2.exStateOf (F := Int) id) = .ok o' ∧ o'.ret = some (.int 0) ∧ o'.iters ≤ 6 ∧
    ∃ tr' p0 c0 p1 c1 v vblk, o'.st.tensors[0]? = some tr' ∧
      tr'.slots = [some (.ptr p0 0, .ptr c0 0), some (.ptr p1 0, .ptr c1 0)] ∧ tr'.vals = .ptr v 0 ∧
      o'.st.heap[p0]? = some ⟨.int, [some (.int 0), some (.int 2)], .output, true⟩ ∧
      o'.st.heap[c0]? = some ⟨.int, [some (.int 0), some (.int 3)], .output, true⟩ ∧
      o'.st.heap[p1]? = some ⟨.int, [some (.int 0), some (.int 1), some (.int 3)], .output, true⟩ ∧
      o'.st.heap[c1]? = some ⟨.int, [some (.int 1), some (.int 0), some (.int 2)], .output, true⟩ ∧
      o'.st.heap[v]? = some vblk ∧ vblk.live = true ∧ vblk.cells.length = 4 ∧
      vblk.cells[0]? = some (some (.flt 4)) ∧ vblk.cells[1]? = some (some (.flt 10)) ∧
      vblk.cells[2]? = some (some (.flt 14)) := by
  have hgen := Sparse2.sparse2_generateIr_eq Sparse2.exOfRat (some 1) Sparse2.exAssign Sparse2.exFormats
    "i" "j" Sparse2.exOut Sparse2.exB Sparse2.exE (by decide)
    (by decide) (by decide) (by decide) (by decide) rfl (by decide)
  have hT : TensorsOK (Sparse2.exStateOf (F := Int) id).heap (Sparse2.exStateOf (F := Int) id).tensors :=
    (agrees_WT (Γ := fun _ => none) (σ := Sparse2.exStateOf (F := Int) id) (by decide)).tensors
  obtain ⟨o', eo, hret, hit, ⟨tr', p0, c0, p1, c1, v, vblk, h1, _, _, _, h5, h6, _, _, h9, h10, h11, h12, h13,
    h14, _, _, h17, h18⟩, _⟩ :=
    sparse2_kernel_correct_optimised Sparse2.exOfRat (some 1) Sparse2.exAssign Sparse2.exFormats "i" "j"
      Sparse2.exOut Sparse2.exB Sparse2.exE (by decide) (by decide) rfl
      (by decide) rfl (by decide) (by decide) (Sparse2.exD (F := Int) id) 0 1 _ _ 4 3 2 3 4 5 6
      (Sparse2.exStateOf (F := Int) id)
      (Sparse2.exOK Sparse2.exOfRat id (fun q _ => ToIr.Ex.allFinite_int _ _ _))
      (Sparse2.exInitOf Sparse2.exOfRat id) hT _ hgen 8 (by decide)
  exact ⟨_, o', hgen, eo, hret, hit, tr', p0, c0, p1, c1, v, vblk, h1, h5, h6, h9, h10, h11, h12, h13, h14, h17,
    h18 0 (by decide), h18 1 (by decide), h18 2 (by decide)⟩

end TV.IR


/-! ## class Csr -/

namespace TV.IR
open TV.Gen TV.Graph

variable {F : Type} [FloatOps F] [FloatLaws F]

/-- **K3 after the peephole optimiser (CSR matrix copy / scale kernels `a(i,j) = e(B(i,j))`, `a: ds`,
`B: ds`).** Under the hypotheses of `csr_kernel_correct` (K3), the float laws `FloatLaws F`, and
well-typed tensor records (`TensorsOK`), the OPTIMISED function `peepF f` — what the compiler really
emits: the position arithmetic `0 * i_dim + i`, the capacity `1 * i_dim + 1`, the tests `if (true)`,
`true && …`, `p_a_1 + 0 >= a_vals_capacity` and the literal identities of the user's expression are
rewritten — runs without error, **returns `0`**, makes at most `n + nnz` loop iterations, and ends in
the SAME final state as `f`: the output record (still output-owned, same order and dimensions block)
has slot 1 = (`pos`, `crd`) and `vals` = the base addresses of three different fresh live output
blocks; `pos` is exactly the `n + 1` positions of `B`, `crd` exactly its `nnz` column coordinates, the
`vals` block has `nnz + 1` cells, the first `nnz` holding `valueF ofRat (B ↦ vals q) e`; every other
tensor record and every block of the initial heap is unchanged. No `intOverflow` alternative. -/
theorem csr_kernel_correct_optimised (ofRat : Rat → F) (cap : Option Int) (a : Alg.DAssign)
    (formats : Formats) (i j : String) (outT bT : TensorId) (e : IdExpr)
    (hout : tensorId 0 a.tname formats a.tidx = some outT) (hf : Csr.dsFormats formats = true)
    (hidx : a.tidx = [i, j]) (hrhs : DenseN.rhsIdx [i, j] a.rhs = true)
    (hfmt : formats.map (·.1) = [outT.name, bT.name])
    (hk0 : 1 ≤ Sparse1.capVal cap) (hk1 : Sparse1.capVal cap < 2147483648)
    (d : Csr.CData F) (ta tb : Nat) (atr btr : TensorRec F) (m : Int) (bp bc bv : Nat) (σ : State F)
    (ok : (Csr.Ctx.mk ofRat i j outT bT e d σ.heap σ.tensors ta bp bc bv).OK)
    (init : Csr.Init (Csr.Ctx.mk ofRat i j outT bT e d σ.heap σ.tensors ta bp bc bv) atr btr tb m σ)
    (hT : TensorsOK σ.heap σ.tensors)
    (f : Func F) (hgen : generateIr ofRat cap a formats (Csr.graph i j outT e) .evaluate = .ok f)
    (fuel : Nat) (hfuel : d.n + d.nnz + 1 ≤ fuel) :
    ∃ o', exec fuel (peepF f).body σ = .ok o' ∧ o'.ret = some (.int 0) ∧ o'.iters ≤ d.n + d.nnz ∧
      (∃ tr' p1 c1 v vblk, o'.st.tensors[ta]? = some tr' ∧ tr'.owner = .output ∧
        tr'.order = atr.order ∧ tr'.dimsBlk = atr.dimsBlk ∧
        tr'.slots = atr.slots.set 1 (some (.ptr p1 0, .ptr c1 0)) ∧
        tr'.vals = .ptr v 0 ∧
        [p1, c1, v].Nodup ∧ (∀ x ∈ [p1, c1, v], σ.heap.length ≤ x) ∧
        o'.st.heap[p1]? = some ⟨.int, (List.range (d.n + 1)).map (fun r => some (.int (d.pos r))), .output, true⟩ ∧
        o'.st.heap[c1]? = some ⟨.int, (List.range d.nnz).map (fun q => some (.int (d.crd q))), .output, true⟩ ∧
        o'.st.heap[v]? = some vblk ∧ vblk.live = true ∧ vblk.owner = .output ∧ vblk.ty = .float ∧
        vblk.cells.length = d.nnz + 1 ∧
        ∀ q, q < d.nnz → vblk.cells[q]? = some (some (.flt (ToIr.valueF ofRat (fun _ => d.vals q) e)))) ∧
      (∀ k, k ≠ ta → o'.st.tensors[k]? = σ.tensors[k]?) ∧
      o'.st.tensors.length = σ.tensors.length ∧
      (∀ k, k < σ.heap.length → o'.st.heap[k]? = σ.heap[k]?) := by
  obtain ⟨o, eo, hret, hit, h1, h2, h3, h4⟩ :=
    Csr.csr_kernel_correct ofRat cap a formats i j outT bT e hout hf hidx hrhs hfmt hk0 hk1 d ta tb atr btr m
      bp bc bv σ ok init f hgen fuel hfuel
  rw [Csr.csr_generateIr_eq ofRat cap a formats i j outT bT e hout ok.hij ok.ho ok.he hf hidx hrhs] at hgen
  cases hgen
  obtain ⟨o', e', hst, hr', hi'⟩ := Opt.peep_transfer _ fuel σ o
    (Opt.Csr.kernel_noRetype_ctx ok cap formats hfmt)
    (Opt.Csr.init_WT cap formats hfmt init hT) eo
  refine ⟨o', e', hr'.trans hret, by omega, ?_⟩
  rw [hst]
  exact ⟨h1, h2, h3, h4⟩

omit [FloatLaws F] in
/-- the fact behind it, for every kernel of the class: the kernel term lies in the typed stable fragment
relative to its own typing (proved for symbolic names and every right-hand side of the class) -/
theorem csr_kernel_noRetype (ofRat : Rat → F) (cap : Option Int) (formats : Formats)
    (i j : String) (outT bT : TensorId) (e : IdExpr) (hN : (Sparse2.allNames i j outT bT).Nodup)
    (ho : Csr.isDS i j outT = true) (he : Csr.isExpr i j bT e = true)
    (hfmt : formats.map (·.1) = [outT.name, bT.name]) :
    (Csr.kernel ofRat cap formats i j outT bT e).noRetype = true :=
  Opt.Csr.kernel_noRetype ofRat cap formats i j outT bT e hN ho he hfmt

/-- **not vacuous** (over `Int`; `a(i,j) = 2 * B(i,j)`, `B = [[1,0,2],[0,0,0],[0,3,0]]`, initial capacity
1): every hypothesis holds on the instance of `Props/C01Csr.lean`, the tensor records of the state are
well typed (`State.agrees`, decided), the kernel is NOT in the untyped stable fragment of
`Props/C07.lean` (a retyping-capable rule, `0 * i_dim`, fires), and the OPTIMISED kernel returns `0` and
leaves `pos = [0, 2, 2, 3]`, `crd = [0, 2, 1]`, `vals = [2, 4, 6, ·]` in fresh blocks the output record
points to -/
example : ∃ f o', generateIr Csr.exOfRat (some 1) Csr.exAssign Csr.exFormats
      (Csr.graph "i" "j" Csr.exOut Csr.exE) .evaluate = .ok f ∧
    NoFloatIdentityS f.body = false ∧
    exec 7 (peepF f).body (Csr.exStateOf (F := Int) id) = .ok o' ∧ o'.ret = some (.int 0) ∧
    ∃ tr' p1 c1 v vblk, o'.st.tensors[0]? = some tr' ∧
      tr'.slots = [none, some (.ptr p1 0, .ptr c1 0)] ∧ tr'.vals = .ptr v 0 ∧
      o'.st.heap[p1]? = some ⟨.int, [some (.int 0), some (.int 2), some (.int 2), some (.int 3)], .output, true⟩ ∧
      o'.st.heap[c1]? = some ⟨.int, [some (.int 0), some (.int 2), some (.int 1)], .output, true⟩ ∧
      o'.st.heap[v]? = some vblk ∧ vblk.live = true ∧ vblk.cells.length = 4 ∧
      vblk.cells[0]? = some (some (.flt 2)) ∧ vblk.cells[1]? = some (some (.flt 4)) ∧
      vblk.cells[2]? = some (some (.flt 6)) := by
  have hgen := Csr.csr_generateIr_eq Csr.exOfRat (some 1) Csr.exAssign Csr.exFormats "i" "j" Csr.exOut
    Csr.exB Csr.exE (by decide) (by decide) (by decide) (by decide) (by decide) rfl (by decide)
  have hT : TensorsOK (Csr.exStateOf (F := Int) id).heap (Csr.exStateOf (F := Int) id).tensors :=
    (agrees_WT (Γ := fun _ => none) (σ := Csr.exStateOf (F := Int) id) (by decide)).tensors
  obtain ⟨o', eo, hret, _, ⟨tr', p1, c1, v, vblk, h1, _, _, _, h5, h6, _, _, h9, h10, h11, h12, _, _, h15, h16⟩,
    _⟩ :=
    csr_kernel_correct_optimised Csr.exOfRat (some 1) Csr.exAssign Csr.exFormats "i" "j" Csr.exOut Csr.exB
      Csr.exE (by decide) (by decide) rfl (by decide) rfl (by decide) (by decide) (Csr.exD (F := Int) id) 0 1
      _ _ 3 2 3 4 (Csr.exStateOf (F := Int) id)
      (Csr.exOK Csr.exOfRat id (fun q _ => ToIr.Ex.allFinite_int _ _ _)) (Csr.exInitOf Csr.exOfRat id) hT _
      hgen 7 (by decide)
  exact ⟨_, o', hgen, by decide, eo, hret, tr', p1, c1, v, vblk, h1, h5, h6, h9, h10, h11, h12, h15,
    h16 0 (by decide), h16 1 (by decide), h16 2 (by decide)⟩

end TV.IR


/-! ## class Spdot -/

namespace TV.IR
open TV.Gen TV.Graph

variable {F : Type} [FloatOps F] [FloatLaws F]

/-- **D3 after the peephole optimiser (sparse dot product `a() = b(i) * c(i)`).** Under the hypotheses of
`spdot_kernel_correct` (D3), the float laws `FloatLaws F`, and well-typed tensor records (`TensorsOK`), the
OPTIMISED function `peepF f` — what the compiler really emits: the bucket address `a_vals + 0 * 1` becomes
`a_vals`, `b_0_pos[0 + 1]` becomes `b_0_pos[1]`, the tests `true && …` lose their `true` — runs without error
with any fuel `≥ mb + mc + 2`, **returns `0`** after at most `mb + mc + 1` loop iterations (no more than the
unoptimised kernel, which makes exactly `|mergeTrace| + 1`), and ends in the SAME final state as `f`: the heap is
EXACTLY the initial heap followed by ONE new block, the live output-owned float block `[S]`,
`S = dotSum (intersect (assoc mb crdB cellsB) (assoc mc crdC cellsC))`; the tensor records are EXACTLY the initial
ones with `vals` of the output record set to the base address of that block. No `intOverflow` alternative. -/
theorem spdot_kernel_correct_optimised (ofRat : Rat → F) (cap : Option Int) (a : Alg.DAssign)
    (formats : Formats) (i : String) (outT bT cT : TensorId) (k1 k2 : Nat)
    (hout : tensorId 0 a.tname formats a.tidx = some outT)
    (hcl : Spdot.isClass i outT bT cT = true) (hidx : a.tidx = [])
    (hrhs : a.rhs = .contract i (.mul (.tensor k1 bT.name [i]) (.tensor k2 cT.name [i])))
    (ok : Spdot.KernelOK formats i outT bT cT)
    (ta : Nat) (atr : TensorRec F) (n : Int)
    (tb : Nat) (btr : TensorRec F) (mb bpb bcb bvb : Nat) (crdB : Nat → Int) (cellsB : Nat → F)
    (tc : Nat) (ctr : TensorRec F) (mc cpb ccb cvb : Nat) (crdC : Nat → Int) (cellsC : Nat → F)
    (σ : State F)
    (init : Spdot.Init outT bT cT ta atr n tb btr mb bpb bcb bvb crdB cellsB tc ctr mc cpb ccb cvb crdC
      cellsC σ)
    (hmb : mb ≤ 1073741824) (hmc : mc ≤ 1073741824)
    (hrngB : ∀ j, j < mb → -2147483648 ≤ crdB j ∧ crdB j < 2147483648)
    (hrngC : ∀ j, j < mc → -2147483648 ≤ crdC j ∧ crdC j < 2147483648)
    (hfin : ∀ q r, q < mb → r < mc → crdB q = crdC r →
      ToIr.AllFinite ofRat (Spmul.env bT (cellsB q) (cellsC r)) (Spmul.mulE bT cT))
    (hsum : ∀ n, n ≤ (Spmul.intersect (Spmul.assoc mb crdB cellsB) (Spmul.assoc mc crdC cellsC)).length →
      FloatOps.finite (Spdot.dotSum
        ((Spmul.intersect (Spmul.assoc mb crdB cellsB) (Spmul.assoc mc crdC cellsC)).take n)) = true)
    (hT : TensorsOK σ.heap σ.tensors)
    (f : Func F) (hgen : generateIr ofRat cap a formats (Spdot.graph i bT cT) .evaluate = .ok f)
    (fuel : Nat) (hfuel : mb + mc + 2 ≤ fuel) :
    ∃ o', exec fuel (peepF f).body σ = .ok o' ∧ o'.ret = some (.int 0) ∧ o'.iters ≤ mb + mc + 1 ∧
      o'.iters ≤ (Merge.mergeTrace [⟨Sparse1.inLeaf bT, bcb, crdB, 0, mb⟩,
        ⟨Sparse1.inLeaf cT, ccb, crdC, 0, mc⟩]).length + 1 ∧
      o'.st.heap = σ.heap ++
        [⟨.float, [some (.flt (Spdot.dotSum
          (Spmul.intersect (Spmul.assoc mb crdB cellsB) (Spmul.assoc mc crdC cellsC))))], .output, true⟩] ∧
      o'.st.tensors = σ.tensors.set ta { atr with vals := .ptr σ.heap.length 0 } ∧
      (∀ k, k < σ.heap.length → o'.st.heap[k]? = σ.heap[k]?) ∧
      (∀ k, k ≠ ta → o'.st.tensors[k]? = σ.tensors[k]?) := by
  obtain ⟨o, eo, hret, hit1, hit2, h1, h2, h3, h4⟩ :=
    Spdot.spdot_kernel_correct ofRat cap a formats i outT bT cT k1 k2 hout hcl hidx hrhs ok ta atr n
      tb btr mb bpb bcb bvb crdB cellsB tc ctr mc cpb ccb cvb crdC cellsC σ init hmb hmc hrngB hrngC hfin hsum
      f hgen fuel hfuel
  rw [Spdot.spdot_generateIr_eq ofRat cap a formats i outT bT cT k1 k2 hout hcl ok.fmt hidx hrhs] at hgen
  cases hgen
  obtain ⟨o', e', hst, hr', hi'⟩ := Opt.peep_transfer _ fuel σ o
    (Opt.Spdot.kernel_noRetype ofRat formats i outT bT cT ok)
    (Opt.Spdot.init_WT ofRat formats i outT bT cT ok.fmt init hT) eo
  refine ⟨o', e', hr'.trans hret, by omega, by omega, ?_⟩
  rw [hst]
  exact ⟨h1, h2, h3, h4⟩

omit [FloatLaws F] in
/-- the kernel term of the class lies in the typed stable fragment relative to its own typing (the
computable check `Func.noRetype`, PROVED for symbolic index / tensor names) -/
theorem spdot_kernel_noRetype (ofRat : Rat → F) (formats : Formats) (i : String) (outT bT cT : TensorId)
    (ok : Spdot.KernelOK formats i outT bT cT) :
    (Spdot.kernel ofRat formats i outT bT cT).noRetype = true :=
  Opt.Spdot.kernel_noRetype ofRat formats i outT bT cT ok

/-- **not vacuous** (over `Int`; `b = {0:1, 2:2, 5:3}`, `c = {2:10, 3:20, 5:30}`, dimension 6): every hypothesis
holds on the instance of `Props/C01Spdot.lean`, the tensor records of the state are well typed (`State.agrees`,
decided), the kernel is NOT in the untyped stable fragment of `Props/C07.lean` (a retyping-capable rule,
`0 * 1`, fires), and the OPTIMISED kernel returns `0` after at most 5 loop iterations and leaves EXACTLY one new
block `[110]`, which the output record points to -/
example : ∃ f o', generateIr Spmul.exOfRat none Spdot.exAssign Spdot.exFormats
      (Spdot.graph "i" Spmul.exB Spmul.exC) .evaluate = .ok f ∧
    NoFloatIdentityS f.body = false ∧
    exec 8 (peepF f).body (Spdot.exStateOf (F := Int) id) = .ok o' ∧ o'.ret = some (.int 0) ∧
    o'.iters ≤ 5 ∧
    o'.st.heap = (Spdot.exStateOf (F := Int) id).heap ++ [⟨.float, [some (.flt 110)], .output, true⟩] ∧
    o'.st.tensors[0]? = some ⟨0, 0, [], .ptr 9 0, .output⟩ := by
  have hgen := Spdot.spdot_generateIr_eq Spmul.exOfRat none Spdot.exAssign Spdot.exFormats "i" Spdot.exOut
    Spmul.exB Spmul.exC 1 2 (by decide) (by decide) Spdot.exKernelOK.fmt rfl rfl
  have hT : TensorsOK (Spdot.exStateOf (F := Int) id).heap (Spdot.exStateOf (F := Int) id).tensors :=
    (agrees_WT (Γ := fun _ => none) (σ := Spdot.exStateOf (F := Int) id) (by decide)).tensors
  obtain ⟨o', eo, hret, _, hit, hheap, hten, _, _⟩ :=
    spdot_kernel_correct_optimised Spmul.exOfRat none Spdot.exAssign Spdot.exFormats "i" Spdot.exOut
      Spmul.exB Spmul.exC 1 2 (by decide) (by decide) rfl rfl Spdot.exKernelOK 0 _ 6 1 _ 3 2 3 4 Spmul.exCrdB
      (Spmul.exCellsB (F := Int) id) 2 _ 3 6 7 8 Spmul.exCrdC (Spmul.exCellsC (F := Int) id) _
      (Spdot.exInitOf (F := Int) id) (by decide) (by decide) Spmul.exRangeB Spmul.exRangeC
      (fun q r _ _ _ => ToIr.Ex.allFinite_int _ _ _) (fun _ _ => rfl) hT _ hgen 8 (by decide)
  rw [Spmul.exTrace] at hit
  rw [Spdot.exDotSum] at hheap
  refine ⟨_, o', hgen, by decide, eo, hret, hit, hheap, ?_⟩
  rw [hten]; rfl

end TV.IR


/-! ## class D2s -/

namespace TV.IR
open TV.Gen TV.Graph

variable {F : Type} [FloatOps F] [FloatLaws F]

/-- **A3 after the peephole optimiser (dense → compressed conversion).** Under the hypotheses of
`Conv.d2s_kernel_correct` (A3), the float laws `FloatLaws F`, and well-typed tensor records (`TensorsOK`),
the OPTIMISED function `peepF f` — what the compiler really emits: the position arithmetic `0 * i_dim + i`,
the test `if (true)`, `p_a + 0` of the vals-allocation check, `0 + 1` of the pos assembly and the capacity
`1 + 1` are rewritten — runs without error, **returns `0`** after at most `n` loop iterations, and ends in the
SAME final state as `f`: the output record (still output-owned, same order and dimensions block) has slot 0 =
(`pos`, `crd`) and `vals` = the base addresses of three different FRESH blocks, `pos = [0, n]`,
`crd = [0, …, n-1]`, the `vals` block has `n + 1` cells, the first `n` holding `cellsB 0 … cellsB (n-1)`;
every other tensor record and every block of the initial heap is unchanged. No `intOverflow` alternative. -/
theorem d2s_kernel_correct_optimised (ofRat : Rat → F) (cap : Option Int) (a : Alg.DAssign) (formats : Formats)
    (i : String) (outT bT : TensorId)
    (hout : tensorId 0 a.tname formats a.tidx = some outT)
    (ho : Sparse1.isSp i outT = true) (hb : Dense1.isLeaf i bT = true) (hf : Conv.d2sFormats formats outT bT)
    (hidx : a.tidx = [i]) (hrhs : Dense1.rhsIdx i a.rhs = true) (N : Sparse1.KNames i outT bT)
    (hk0 : 1 ≤ Sparse1.capVal cap) (hk1 : Sparse1.capVal cap < 2147483648)
    (ta tb : Nat) (atr btr : TensorRec F) (n bvb : Nat) (cellsB : Nat → F) (σ : State F)
    (init : Conv.D2SInit outT bT ta tb atr btr n bvb cellsB σ)
    (hn : n ≤ 1073741824)
    (hfin : ∀ q, q < n → FloatOps.finite (cellsB q) = true)
    (hT : TensorsOK σ.heap σ.tensors)
    (f : Func F) (hgen : generateIr ofRat cap a formats (Conv.graph i outT bT) .evaluate = .ok f)
    (fuel : Nat) (hfuel : n + 1 ≤ fuel) :
    ∃ o', exec fuel (peepF f).body σ = .ok o' ∧ o'.ret = some (.int 0) ∧ o'.iters ≤ n ∧
      (∃ tr' pF cF vF vblk, o'.st.tensors[ta]? = some tr' ∧ tr'.owner = .output ∧ tr'.order = atr.order ∧
        tr'.dimsBlk = atr.dimsBlk ∧ tr'.slots = atr.slots.set 0 (some (.ptr pF 0, .ptr cF 0)) ∧
        tr'.vals = .ptr vF 0 ∧
        σ.heap.length ≤ pF ∧ σ.heap.length ≤ cF ∧ σ.heap.length ≤ vF ∧ pF ≠ cF ∧ pF ≠ vF ∧ cF ≠ vF ∧
        o'.st.heap[pF]? = some ⟨.int, [some (.int 0), some (.int n)], .output, true⟩ ∧
        o'.st.heap[cF]? = some ⟨.int, (List.range n).map (fun (j : Nat) => some (.int (j : Int))), .output, true⟩ ∧
        o'.st.heap[vF]? = some vblk ∧ vblk.live = true ∧ vblk.owner = .output ∧ vblk.ty = .float ∧
        vblk.cells.length = n + 1 ∧
        ∀ j, j < n → vblk.cells[j]? = some (some (.flt (cellsB j)))) ∧
      (∀ k, k ≠ ta → o'.st.tensors[k]? = σ.tensors[k]?) ∧
      o'.st.tensors.length = σ.tensors.length ∧
      (∀ k, k < σ.heap.length → o'.st.heap[k]? = σ.heap[k]?) := by
  obtain ⟨o, eo, hret, hit, h1, h2, h3, h4⟩ :=
    Conv.d2s_kernel_correct ofRat cap a formats i outT bT hout ho hb hf hidx hrhs N hk0 hk1 ta tb atr btr n bvb
      cellsB σ init hn hfin f hgen fuel hfuel
  rw [Conv.d2s_generateIr_eq ofRat cap a formats i outT bT hout ho hb hf hidx hrhs] at hgen
  cases hgen
  obtain ⟨o', e', hst, hr', hi'⟩ := Opt.peep_transfer _ fuel σ o
    (Opt.D2s.kernel_noRetype ofRat cap formats i outT bT ho hf N)
    (Opt.D2s.init_WT ofRat cap formats i outT bT hf init hT) eo
  refine ⟨o', e', hr'.trans hret, by omega, ?_⟩
  rw [hst]
  exact ⟨h1, h2, h3, h4⟩

omit [FloatLaws F] in
/-- the fact behind it: the kernel term of the class lies in the typed stable fragment relative to its own
typing, for symbolic index / tensor names and every initial capacity -/
theorem d2s_kernel_noRetype (ofRat : Rat → F) (cap : Option Int) (formats : Formats) (i : String)
    (outT bT : TensorId) (ho : Sparse1.isSp i outT = true) (hf : Conv.d2sFormats formats outT bT)
    (N : Sparse1.KNames i outT bT) :
    (Conv.d2sKernel ofRat cap formats i outT bT).noRetype = true :=
  Opt.D2s.kernel_noRetype ofRat cap formats i outT bT ho hf N

/-- **not vacuous** (over `Int`; `a(i) = b(i)`, `a: s`, `b: d = [3, 0, 5]`, initial capacity 1): every
hypothesis holds on the instance of `Props/C01Convert.lean`, the tensor records of the state are well typed
(`State.agrees`, decided), the kernel is NOT in the untyped stable fragment of `Props/C07.lean` (a
retyping-capable rule, `0 * i_dim`, fires), and the OPTIMISED kernel returns `0` and leaves `pos = [0, 3]`,
`crd = [0, 1, 2]`, `vals = [3, 0, 5, ·]` in fresh blocks the output record points to -/
example : ∃ f o', generateIr Conv.exOfRat (some 1) Conv.exAssign Conv.exFormats
      (Conv.graph "i" Conv.exOut Conv.exB) .evaluate = .ok f ∧
    NoFloatIdentityS f.body = false ∧
    exec 4 (peepF f).body (Conv.exStateOf (F := Int) id) = .ok o' ∧ o'.ret = some (.int 0) ∧
    ∃ tr' pF cF vF vblk, o'.st.tensors[0]? = some tr' ∧
      tr'.slots = [some (.ptr pF 0, .ptr cF 0)] ∧ tr'.vals = .ptr vF 0 ∧
      o'.st.heap[pF]? = some ⟨.int, [some (.int 0), some (.int 3)], .output, true⟩ ∧
      o'.st.heap[cF]? = some ⟨.int, [some (.int 0), some (.int 1), some (.int 2)], .output, true⟩ ∧
      o'.st.heap[vF]? = some vblk ∧ vblk.live = true ∧ vblk.cells.length = 4 ∧
      vblk.cells[0]? = some (some (.flt 3)) ∧ vblk.cells[1]? = some (some (.flt 0)) ∧
      vblk.cells[2]? = some (some (.flt 5)) := by
  have hgen := Conv.d2s_generateIr_eq Conv.exOfRat (some 1) Conv.exAssign Conv.exFormats "i" Conv.exOut
    Conv.exB (by decide) (by decide) (by decide) rfl rfl (by decide)
  have hT : TensorsOK (Conv.exStateOf (F := Int) id).heap (Conv.exStateOf (F := Int) id).tensors :=
    (agrees_WT (Γ := fun _ => none) (σ := Conv.exStateOf (F := Int) id) (by decide)).tensors
  obtain ⟨o', eo, hret, _, ⟨tr', pF, cF, vF, vblk, h1, _, _, _, h5, h6, _, _, _, _, _, _, h13, h14, h15, h16, _,
    _, h19, h20⟩, _⟩ :=
    d2s_kernel_correct_optimised Conv.exOfRat (some 1) Conv.exAssign Conv.exFormats "i" Conv.exOut Conv.exB
      (by decide) (by decide) (by decide) rfl rfl (by decide) Conv.exNames (by decide) (by decide) 0 1 _ _ 3 2
      (Conv.exCells (F := Int) id) _ (Conv.exInitOf (F := Int) id) (by decide) (fun _ _ => rfl) hT _ hgen 4
      (by decide)
  exact ⟨_, o', hgen, by decide, eo, hret, tr', pF, cF, vF, vblk, h1, h5, h6, h13, h14, h15, h16, h19,
    h20 0 (by decide), h20 1 (by decide), h20 2 (by decide)⟩

end TV.IR


/-! ## class Dense1 -/

namespace TV.IR
open TV.Gen TV.Graph

variable {F : Type} [FloatOps F] [FloatLaws F]

/-- **T2 after the peephole optimiser, EXACT form (dense element-wise vector kernels).** Under the
hypotheses of `dense1_kernel_correct` (T2), the float laws `FloatLaws F`, and well-typed tensor records
(`TensorsOK`), the OPTIMISED function `peepF f` — what the compiler really emits: the cursor
initialisation `0 * i_dim + i`, the capacity `1 * out->dimensions[0]`, the test `if (true)` and the
literal identities of the user's expression are rewritten — runs without error, **returns `0`**, and
ends in the SAME final state as `f`: the output record's `vals` points to the fresh block
`σ.heap.length` whose cells are exactly `valueF ofRat (fun t => cellsOf t.name j) e`, `j < n`; all
inputs and other records unchanged. Unlike the older `Dense1.dense1_kernel_correct_optimised` there is
NO `intOverflow` alternative (the kernel lies in the typed stable fragment of C07,
`Opt.Dense1.kernel_noRetype`); the optimised kernel makes no more loop iterations than the original. -/
theorem dense1_kernel_correct_optimised_exact (ofRat : Rat → F) (cap : Option Int) (a : Alg.DAssign)
    (formats : Formats) (i : String) (outT : TensorId) (e : IdExpr)
    (hout : tensorId 0 a.tname formats a.tidx = some outT)
    (ho : Dense1.isLeaf i outT = true) (he : Dense1.isExpr i e = true)
    (hf : Dense1.denseFormats formats = true)
    (hidx : a.tidx = [i]) (hrhs : Dense1.rhsIdx i a.rhs = true) (ok : Dense1.KernelOK formats i outT e)
    (n : Nat) (tix blkOf : String → Nat) (cellsOf : String → Nat → F) (σ : State F)
    (hn : n < 2147483648)
    (hfin : ∀ j, j < n → Dense1.allFinite ofRat (fun t => cellsOf t.name j) e = true)
    (hinit : Dense1.Init formats outT e n tix blkOf cellsOf σ)
    (hT : TensorsOK σ.heap σ.tensors)
    (f : Func F) (hgen : generateIr ofRat cap a formats (Dense1.graph i outT e) .evaluate = .ok f)
    (fuel : Nat) (hfuel : n + 1 ≤ fuel) :
    ∃ o', exec fuel (peepF f).body σ = .ok o' ∧ o'.ret = some (.int 0) ∧ o'.iters ≤ n ∧
      (∃ tr, σ.tensors[tix outT.name]? = some tr ∧
        o'.st.tensors[tix outT.name]? = some { tr with vals := .ptr σ.heap.length 0 }) ∧
      (∃ blk, o'.st.heap[σ.heap.length]? = some blk ∧ blk.live = true ∧ blk.owner = .output ∧
        blk.ty = .float ∧
        blk.cells = (List.range n).map fun j =>
          some (.flt (Dense1.valueF ofRat (fun t => cellsOf t.name j) e))) ∧
      (∀ b, b < σ.heap.length → o'.st.heap[b]? = σ.heap[b]?) ∧
      o'.st.heap.length = σ.heap.length + 1 ∧
      (∀ k', k' ≠ tix outT.name → o'.st.tensors[k']? = σ.tensors[k']?) := by
  obtain ⟨o, eo, hret, hit, h1, h2, h3, h4, h5⟩ :=
    Dense1.dense1_kernel_correct ofRat cap a formats i outT e hout ho he hf hidx hrhs ok n tix blkOf
      cellsOf σ hn hfin hinit f hgen fuel hfuel
  rw [Dense1.dense1_generateIr_eq ofRat cap a formats i outT e hout ho he hf hidx hrhs] at hgen
  cases hgen
  obtain ⟨o', e', hst, hr', hi'⟩ := Opt.peep_transfer _ fuel σ o
    (Opt.Dense1.kernel_noRetype ofRat formats i outT e ok)
    (Opt.Dense1.init_WT ofRat formats i outT e hinit hT) eo
  refine ⟨o', e', hr'.trans hret, by omega, ?_⟩
  rw [hst]
  exact ⟨h1, h2, h3, h4, h5⟩

omit [FloatLaws F] in
/-- the kernel term of the class lies in the typed stable fragment relative to its own typing (the
computable check `Func.noRetype`, PROVED for symbolic names and every right-hand side of the class) -/
theorem dense1_kernel_noRetype (ofRat : Rat → F) (formats : Formats) (i : String) (outT : TensorId)
    (e : IdExpr) (ok : Dense1.KernelOK formats i outT e) :
    (Dense1.kernel ofRat formats i outT e).noRetype = true :=
  Opt.Dense1.kernel_noRetype ofRat formats i outT e ok

/-- **not vacuous** (over `Int`; `a(i) = b(i) * c(i) + 2`, `n = 3`): every hypothesis holds on the
instance of `Props/C01Dense.lean`, the tensor records of the state are well typed (`State.agrees`,
decided), the kernel is NOT in the untyped stable fragment of `Props/C07.lean` (`0 * i_dim` fires), and
the OPTIMISED kernel returns `0` and leaves `[6, 12, 20]` in the fresh block `5` -/
example : ∃ f o', generateIr Dense1.exOfRat none Dense1.exAssign Dense1.exFormats
      (Dense1.graph "i" Dense1.exOut Dense1.exE) .evaluate = .ok f ∧
    NoFloatIdentityS f.body = false ∧
    exec 4 (peepF f).body (Dense1.exStateOf (F := Int) id) = .ok o' ∧ o'.ret = some (.int 0) ∧
    ∃ blk, o'.st.heap[5]? = some blk ∧ blk.live = true ∧
      blk.cells = [some (.flt 6), some (.flt 12), some (.flt 20)] := by
  have hgen := Dense1.dense1_generateIr_eq Dense1.exOfRat none Dense1.exAssign Dense1.exFormats "i"
    Dense1.exOut Dense1.exE (by decide) (by decide) (by decide) (by decide) rfl (by decide)
  have hT : TensorsOK (Dense1.exStateOf (F := Int) id).heap (Dense1.exStateOf (F := Int) id).tensors :=
    (agrees_WT (Γ := fun _ => none) (σ := Dense1.exStateOf (F := Int) id) (by decide)).tensors
  obtain ⟨o', eo, hret, _, _, ⟨blk, hb, hlive, _, _, hcells⟩, _⟩ :=
    dense1_kernel_correct_optimised_exact Dense1.exOfRat none Dense1.exAssign Dense1.exFormats "i"
      Dense1.exOut Dense1.exE (by decide) (by decide) (by decide) (by decide) rfl (by decide)
      Dense1.exKernelOK 3 Dense1.exTix Dense1.exBlkOf _ _ (by omega)
      (fun j _ => Dense1.allFinite_of_total (fun _ => rfl) _ _ _) (Dense1.exInitOf (F := Int) id) hT _ hgen 4
      (by omega)
  refine ⟨_, o', hgen, by decide, eo, hret, blk, hb, hlive, ?_⟩
  rw [hcells]
  rfl

end TV.IR


/-! ## class Dense2 -/

namespace TV.IR
open TV.Gen TV.Graph

variable {F : Type} [FloatOps F] [FloatLaws F]

/-- **U3 after the peephole optimiser, EXACT form (dense kernels with one contraction,
`out(i) = Σ_j e`).** Under the hypotheses of `dense2_kernel_correct` (U3), the float laws `FloatLaws F`,
and well-typed tensor records (`TensorsOK`), the OPTIMISED function `peepF f` — what the compiler really
emits: the cursor initialisations `0 * i_dim + i`, `0 * j_dim + j`, the bucket address
`out_vals + p_<out>_0 * 1`, the capacity `1 * out->dimensions[0]`, the tests `if (true)` and the literal
identities of the user's expression are rewritten — runs without error, **returns `0`**, and ends in the
SAME final state as `f`: the output record's `vals` points to the fresh block `σ.heap.length` whose
cells are exactly the sums `dotF ofRat i j m cellsOf e ii m`, `ii < n`; all inputs and other records
unchanged. Unlike the older `Dense2.dense2_kernel_correct_optimised` there is NO `intOverflow`
alternative (the kernel lies in the typed stable fragment of C07, `Opt.Dense2.kernel_noRetype`); the
optimised kernel makes no more loop iterations than the original. -/
theorem dense2_kernel_correct_optimised_exact (ofRat : Rat → F) (cap : Option Int) (a : Alg.DAssign)
    (formats : Formats) (i j jt : String) (jd : Nat) (outT : TensorId) (e : IdExpr)
    (hout : tensorId 0 a.tname formats a.tidx = some outT)
    (ho : Dense2.isI i outT = true) (he : Dense2.isExpr i j e = true)
    (hsp : (extractContext e j).isSparse = false) (hf : Dense2.denseFormats formats = true)
    (hd : indexDimensions a = [(i, a.tname, 0), (j, jt, jd)])
    (ok : Dense2.KernelOK formats i j jt outT e)
    (n m : Nat) (tix blkOf : String → Nat) (cellsOf : String → Nat → F) (σ : State F)
    (hnm : n * m < 2147483648) (hn : n < 2147483648) (hm : m < 2147483648) (hjd : jd < 2147483648)
    (hfin : ∀ ii, ii < n → ∀ jj, jj < m → Dense2.stepFinite ofRat i j m cellsOf e ii jj = true)
    (hinit : Dense2.Init formats i j jt jd outT e n m tix blkOf cellsOf σ)
    (hT : TensorsOK σ.heap σ.tensors)
    (f : Func F) (hgen : generateIr ofRat cap a formats (Dense2.graph i j outT e) .evaluate = .ok f)
    (fuel : Nat) (hfuel : n + m + 2 ≤ fuel) :
    ∃ o', exec fuel (peepF f).body σ = .ok o' ∧ o'.ret = some (.int 0) ∧ o'.iters ≤ n * (m + 2) ∧
      (∃ tr, σ.tensors[tix outT.name]? = some tr ∧
        o'.st.tensors[tix outT.name]? = some { tr with vals := .ptr σ.heap.length 0 }) ∧
      (∃ blk, o'.st.heap[σ.heap.length]? = some blk ∧ blk.live = true ∧ blk.owner = .output ∧
        blk.ty = .float ∧
        blk.cells = (List.range n).map fun ii =>
          some (.flt (Dense2.dotF ofRat i j m cellsOf e ii m))) ∧
      (∀ b, b < σ.heap.length → o'.st.heap[b]? = σ.heap[b]?) ∧
      o'.st.heap.length = σ.heap.length + 1 ∧
      (∀ k', k' ≠ tix outT.name → o'.st.tensors[k']? = σ.tensors[k']?) := by
  obtain ⟨o, eo, hret, hit, h1, h2, h3, h4, h5⟩ :=
    Dense2.dense2_kernel_correct ofRat cap a formats i j jt jd outT e hout ho he hsp hf hd ok n m tix blkOf
      cellsOf σ hnm hn hm hjd hfin hinit f hgen fuel hfuel
  rw [Dense2.dense2_generateIr_eq ofRat cap a formats i j ok.ij jt jd outT e hout ho he hsp hf hd] at hgen
  cases hgen
  obtain ⟨o', e', hst, hr', hi'⟩ := Opt.peep_transfer _ fuel σ o
    (Opt.Dense2.kernel_noRetype ofRat formats i j jt jd outT e ok)
    (Opt.Dense2.init_WT ofRat formats i j jt jd outT e hinit hT) eo
  refine ⟨o', e', hr'.trans hret, by omega, ?_⟩
  rw [hst]
  exact ⟨h1, h2, h3, h4, h5⟩

omit [FloatLaws F] in
/-- the kernel term of the class lies in the typed stable fragment relative to its own typing (the
computable check `Func.noRetype`, PROVED for symbolic names and every right-hand side of the class) -/
theorem dense2_kernel_noRetype (ofRat : Rat → F) (formats : Formats) (i j jt : String) (jd : Nat)
    (outT : TensorId) (e : IdExpr) (ok : Dense2.KernelOK formats i j jt outT e) :
    (Dense2.kernel ofRat formats i j jt jd outT e).noRetype = true :=
  Opt.Dense2.kernel_noRetype ofRat formats i j jt jd outT e ok

/-- **not vacuous** (over `Int`; `a(i) = B(i,j) * c(j)`, `n = 2`, `m = 3`): every hypothesis holds on the
instance of `Props/C01Dense2.lean`, the tensor records of the state are well typed (`State.agrees`,
decided), the kernel is NOT in the untyped stable fragment of `Props/C07.lean` (`0 * i_dim` fires), and
the OPTIMISED kernel returns `0` and leaves `[50, 122]` in the fresh block `5` -/
example : ∃ f o', generateIr Dense2.exOfRat none Dense2.exAssign Dense2.exFormats
      (Dense2.graph "i" "j" Dense2.exOut Dense2.exE) .evaluate = .ok f ∧
    NoFloatIdentityS f.body = false ∧
    exec 7 (peepF f).body (Dense2.exStateOf (F := Int) id) = .ok o' ∧ o'.ret = some (.int 0) ∧
    ∃ blk, o'.st.heap[5]? = some blk ∧ blk.live = true ∧
      blk.cells = [some (.flt 50), some (.flt 122)] := by
  have hgen : generateIr Dense2.exOfRat none Dense2.exAssign Dense2.exFormats
      (Dense2.graph "i" "j" Dense2.exOut Dense2.exE) .evaluate =
      .ok (Dense2.kernel Dense2.exOfRat Dense2.exFormats "i" "j" "B" 1 Dense2.exOut Dense2.exE) := by
    rw [Dense2.exAssign_eq]
    exact Dense2.dense2_generateIr_eq Dense2.exOfRat none _ Dense2.exFormats "i" "j" (by decide) "B" 1
      Dense2.exOut Dense2.exE (by decide) (by decide) (by decide) (by decide) (by decide)
      (Dense2.indexDimensions_matvec "a" "B" "c" "i" "j" (by decide) 1 2)
  have hgen' := hgen
  rw [Dense2.exAssign_eq] at hgen'
  have hT : TensorsOK (Dense2.exStateOf (F := Int) id).heap (Dense2.exStateOf (F := Int) id).tensors :=
    (agrees_WT (Γ := fun _ => none) (σ := Dense2.exStateOf (F := Int) id) (by decide)).tensors
  obtain ⟨o', eo, hret, _, _, ⟨blk, hb, hlive, _, _, hcells⟩, _⟩ :=
    dense2_kernel_correct_optimised_exact Dense2.exOfRat none _ Dense2.exFormats "i" "j" "B" 1
      Dense2.exOut Dense2.exE (by decide) (by decide) (by decide) (by decide) (by decide)
      (Dense2.indexDimensions_matvec "a" "B" "c" "i" "j" (by decide) 1 2)
      Dense2.exKernelOK 2 3 Dense2.exTix Dense2.exBlkOf _ _ (by omega) (by omega) (by omega) (by omega)
      (fun ii _ jj _ => Dense2.stepFinite_of_total (fun _ => rfl) _ _ _ _ _ _ _ _)
      (Dense2.exInitOf (F := Int) id) hT _ hgen' 7 (by omega)
  refine ⟨_, o', hgen, by decide, eo, hret, blk, hb, hlive, ?_⟩
  rw [hcells]
  rfl

end TV.IR
