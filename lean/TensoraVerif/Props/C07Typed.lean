import TensoraVerif.Lemmas.PeepTypedStmt
import TensoraVerif.Lemmas.PeepTypedCheck
import TensoraVerif.Lemmas.PeepTypedExamples
import TensoraVerif.Lemmas.PeepTypedToIr

/-!
C07, the TYPED stable fragment — the peephole optimiser (`peepE`/`peepS`) preserves the behaviour of
the abstract machine EXACTLY (same value / same final state / same return value, no `intOverflow`
alternative) on every kernel of the decidable fragment `NoRetypeS Γ` (`Model/PeepTyped.lean`), on
every state that agrees with the variable typing `Γ`.

The fragment extends `NoFloatIdentityS` (`Props/C07.lean`): a float-literal identity (`0.0 + e`,
`e + 0.0`, `e - 0.0`, `1.0 * e`, `e * 1.0`) may fire when the kept operand is syntactically
FLOAT-typed, and `0 * e`, `e * 0` may fire when both operands are INT-typed (`tyOf Γ`). In a census
of 8574 kernel functions emitted by the compiler all 8574 lie in `NoRetypeS` (2628 in
`NoFloatIdentityS`).

"σ agrees with Γ" is `WT Γ σ` (`Lemmas/PeepTypedInv.lean`), decidable as `State.agrees Γ σ`: every
variable typed by `Γ` is declared at that type, every `int32_t*` / `double*` variable that holds a
pointer points into a block of that element type, and the arrays of every tensor have the element
types of `taco_tensor_t`. The heap part is necessary: the machine checks a loaded cell against the
element type of the BLOCK, not against the declared type of the pointer (`naive_agreement_insufficient`).
-/
namespace TV.IR
variable {F : Type} [FloatOps F]

/-- Y1. The syntactic typing is sound for the machine: on a state that agrees with `Γ`, a
successfully evaluated expression of kind `k` has a value of kind `k` (`HasKind`: an `.int`, a
`.flt`, a `.bool`, or a pointer/null into a block of 32-bit integers resp. floats). -/
theorem typing_sound (Γ : String → Option Ty) (σ : State F) (e : Expr F) (v : Val F) (k : NumKind)
    (wt : WT Γ σ) (h : evalE σ e = .ok v) (hk : tyOf Γ e = some k) : HasKind σ.heap k v :=
  tyOf_sound wt h hk

/-- Y1, int: an expression typed `int` evaluates to an `.int`. -/
theorem typing_sound_int (Γ : String → Option Ty) (σ : State F) (e : Expr F) (v : Val F)
    (wt : WT Γ σ) (h : evalE σ e = .ok v) (hk : tyOf Γ e = some .int) : ∃ i, v = .int i :=
  tyOf_sound wt h hk

/-- Y1, float: an expression typed `float` evaluates to a `.flt`. -/
theorem typing_sound_float (Γ : String → Option Ty) (σ : State F) (e : Expr F) (v : Val F)
    (wt : WT Γ σ) (h : evalE σ e = .ok v) (hk : tyOf Γ e = some .float) : ∃ f, v = .flt f :=
  tyOf_sound wt h hk

/-- The decidable check `State.agrees` implies the invariant `WT`. -/
theorem agrees_sound (Γ : String → Option Ty) (σ : State F) (h : σ.agrees Γ = true) : WT Γ σ :=
  agrees_WT h

/-- Y3, invariant. Execution of a statement of the typed fragment preserves "σ agrees with Γ". -/
theorem typed_state_preserved (Γ : String → Option Ty) (fuel : Nat) (s : Stmt F) (σ : State F)
    (o : Out F) (hs : NoRetypeS Γ s = true) (wt : WT Γ σ) (h : exec fuel s σ = .ok o) :
    WT Γ o.st :=
  exec_preserves_WT Γ fuel s σ hs wt o h

/-- The typed fragment contains the untyped one (expression level; at statement level `NoRetypeS`
adds the declaration / pointer discipline `declOK`, `varRhsOK`, `assignOK`). -/
theorem noRetypeE_contains_noFloatIdentityE (Γ : String → Option Ty) (e : Expr F)
    (h : NoFloatIdentityE e = true) : NoRetypeE Γ e = true :=
  noRetypeE_of_noFloatIdentityE Γ h

/-- Under the hoisting certificate (C06) every parameter and declaration of a function has its type
in `Func.tyEnv`, so `Γ` is a function of the names and `declOK` holds at every declaration. -/
theorem tyEnv_consistent (f : Func F) (hc : hoistConsistent f.params f.body = true)
    (x : String) (t : Ty) (hm : (x, t) ∈ f.params ++ f.body.decls) :
    f.tyEnv x = some t ∧ declOK f.tyEnv x t = true :=
  ⟨tyEnv_of_hoistConsistent hc hm, declOK_of_tyEnv (tyEnv_of_hoistConsistent hc hm)⟩

/-- Y5, PARTIAL. The right-hand side `to_ir(e)` of every terminal assignment the lowering pass
emits (`Gen.toIrWith`, the only place where the literals of the user's expression enter a kernel)
is float-typed — before and after optimisation — and lies in the typed fragment, whatever literals
(`0`, `1`, `0.0`, `1.0`, …) `e` contains, as soon as `Γ` types the `<tensor>_vals` variables of `e`
as `double*` (`valsTyped`).
MISSING for the full statement "`generateIr` only produces kernels with `Func.noRetype`": the same
analysis for the rest of `Gen.lower` (position arithmetic `0 * dim + i`, capacities, the accumulation
`target = target + rhs`, allocation and hand-back statements) and the proof that the declarations of
a generated function are name-consistent; these are checked per emitted kernel at run time by the
computable `Func.noRetype` (8574 of 8574 emitted kernel functions pass). -/
theorem generateIr_terminal_rhs_typed_partial (Γ : String → Option Ty) (ofRat : Rat → F)
    (e : Graph.IdExpr) (h : valsTyped Γ e = true) :
    tyOf Γ (Gen.toIrWith ofRat e) = some .float ∧
      tyOf Γ (peepE (Gen.toIrWith ofRat e)) = some .float ∧
      NoRetypeE Γ (Gen.toIrWith ofRat e) = true :=
  toIrWith_typed Γ ofRat e h

/-- its hypothesis is satisfiable: `1 * b(i) + 0` with `b_vals : double*` — the optimiser rewrites it
to the bare load `b_vals[p_b_0]`. -/
example :
    let b : Graph.TensorId := ⟨"b", "b", ["i"], [.compressed]⟩
    let e : Graph.IdExpr := .add (.mul (.int 1) (.tensor b)) (.int 0)
    let Γ := lookupTy [("b_vals", Ty.ptr .float), ("p_b_0", .int)]
    valsTyped Γ e = true ∧
      peepE (Gen.toIrWith (F := Int) (fun q => q.num) e) = .idx (.var "b_vals") (.var "p_b_0") :=
  ⟨by decide, by rfl⟩

variable [FloatLaws F]

/-- Y2/Y3, expressions. On the typed fragment the optimised expression evaluates to exactly the
same value on every state that agrees with `Γ` — in particular it cannot overflow. (Exact equality,
not just numerical equality: under `FloatLaws`, `0.0 + f = f`, `f - 0.0 = f`, `1.0 * f = f` for finite
`f`, the carrier being read modulo the sign of zero.) -/
theorem peephole_expr_sound_typed (Γ : String → Option Ty) (σ : State F) (e : Expr F) (v : Val F)
    (wt : WT Γ σ) (hs : NoRetypeE Γ e = true) (h : evalE σ e = .ok v) :
    evalE σ (peepE e) = .ok v :=
  peepE_exact_typed wt hs h

/-- Y3. `peephole_stmt_sound_typed`: for `s` in the typed fragment, every state `σ` that agrees with
`Γ` and every fuel: if the original run succeeds then the optimised run succeeds with the same final
state and the same return value (and no more loop iterations / steps) — without the `intOverflow`
alternative of `peephole_stmt_sound`. -/
theorem peephole_stmt_sound_typed (Γ : String → Option Ty) (fuel : Nat) (s : Stmt F) (σ : State F)
    (o : Out F) (wt : WT Γ σ) (hs : NoRetypeS Γ s = true) (h : exec fuel s σ = .ok o) :
    ∃ o', exec fuel (peepS s) σ = .ok o' ∧ o'.st = o.st ∧ o'.ret = o.ret ∧
      o'.iters ≤ o.iters ∧ o'.steps ≤ o.steps :=
  peepS_sound_typed Γ fuel s σ hs wt o h

/-- Function form, with the two computable checks the harness evaluates per emitted kernel:
`f.noRetype` (the body is in the typed fragment relative to the function's own typing
`f.tyEnv` = parameters + declarations) and `σ.agrees f.tyEnv` on the entry state. -/
theorem peephole_func_sound_typed (f : Func F) (fuel : Nat) (σ : State F) (o : Out F)
    (hs : f.noRetype = true) (ha : σ.agrees f.tyEnv = true) (h : exec fuel f.body σ = .ok o) :
    ∃ o', exec fuel (peepF f).body σ = .ok o' ∧ o'.st = o.st ∧ o'.ret = o.ret := by
  obtain ⟨o', e', r1, r2, _, _⟩ := peepS_sound_typed f.tyEnv fuel f.body σ hs (agrees_WT ha) o h
  exact ⟨o', e', r1, r2⟩

/-! ### Y4 and non-vacuity (over the exact carrier `F := Int`) -/

/-- Y4: the dense position statement `int32_t p = 0 * i_dim + i;` (int variables) is in the typed
fragment but not in `NoFloatIdentityS`; the optimiser really rewrites it (to `p = i`). -/
example : NoRetypeS C07TypedEx.posEnv C07TypedEx.posStmt = true
    ∧ NoFloatIdentityS C07TypedEx.posStmt = false
    ∧ peepS C07TypedEx.posStmt = .declAssign "p" .int (.var "i") :=
  ⟨by decide, by decide, by rfl⟩

/-- Y4: the F8 witness `(1.0 * i) * j` with `int32_t i, j` is NOT in the typed fragment (and it
does overflow after optimisation, `Props/C07.lean`). -/
example : NoRetypeE C07TypedEx.f8Env C07Ex.f8Expr = false
    ∧ evalE C07Ex.f8State (peepE C07Ex.f8Expr) = .error .intOverflow :=
  ⟨by decide, by rfl⟩

/-- the hypotheses of `peephole_func_sound_typed` are satisfiable on a non-trivial kernel (tensor
unpacking, `malloc`, a loop with dense position arithmetic `0 * n + i` and the float identities
`1.0 * a_vals[p] + 0.0` around an array load): it is in the typed fragment, NOT in the untyped one,
the optimiser really rewrites it, the entry state agrees with the function's typing … -/
example : C07TypedEx.kernel.noRetype = true
    ∧ NoFloatIdentityS C07TypedEx.kernel.body = false
    ∧ peepS C07TypedEx.kernel.body = C07TypedEx.kernelOpt
    ∧ C07TypedEx.kernelState.agrees C07TypedEx.kernel.tyEnv = true :=
  ⟨by decide, by decide, by rfl, by decide⟩

/-- … the original kernel runs to completion (2 iterations, returns 0, output values `[10, 20]`) … -/
example : ∃ o, exec 5 C07TypedEx.kernel.body C07TypedEx.kernelState = .ok o ∧ o.ret = some (.int 0) ∧
    o.iters = 2 ∧ (o.st.heap[3]?).map (·.cells) = some [some (.flt 10), some (.flt 20)] :=
  C07TypedEx.kernel_runs

/-- … and `peephole_func_sound_typed` transfers the run to the optimised kernel, with the same
output. -/
example : ∃ o', exec 5 C07TypedEx.kernelOpt C07TypedEx.kernelState = .ok o' ∧ o'.ret = some (.int 0) ∧
    (o'.st.heap[3]?).map (·.cells) = some [some (.flt 10), some (.flt 20)] := by
  obtain ⟨o, h, hr, _, hc⟩ := C07TypedEx.kernel_runs
  obtain ⟨o', h', hst, hr'⟩ :=
    peephole_func_sound_typed C07TypedEx.kernel 5 _ o (by decide) (by decide) h
  exact ⟨o', h', hr'.trans hr, by rw [hst]; exact hc⟩

/-! ### deviation from the brief: agreement on variable records alone is not enough -/

/-- Counterexample to Y1/Y3 under the naive agreement (`a : double*` pointing to a block of 32-bit
integers — the machine checks a loaded cell against the element type of the block, `hasElemTy`, not
against the declared type of the pointer): the state is `VarsTyped`; `a[0]` is typed `float` but
evaluates to an `.int`; `(1.0 * a[0]) * a[0]` passes the rule conditions of the typed fragment and
evaluates to the float `1e10`, while its optimised form `a[0] * a[0]` overflows. This is why `WT`
(and `State.agrees`, which rejects this state) also constrains the heap, and why `NoRetypeS`
contains a pointer discipline. -/
theorem naive_agreement_insufficient :
    VarsTyped C07TypedEx.badEnv C07TypedEx.badState
    ∧ tyOf C07TypedEx.badEnv (.idx (.var "a") (.intLit 0) : Expr Int) = some .float
    ∧ evalE C07TypedEx.badState (.idx (.var "a") (.intLit 0)) = .ok (.int 100000)
    ∧ NoRetypeE C07TypedEx.badEnv C07TypedEx.badExpr = true
    ∧ evalE C07TypedEx.badState C07TypedEx.badExpr = .ok (.flt 10000000000)
    ∧ evalE C07TypedEx.badState (peepE C07TypedEx.badExpr) = .error .intOverflow
    ∧ C07TypedEx.badState.agrees C07TypedEx.badEnv = false := by
  refine ⟨?_, by decide, by rfl, by decide, by rfl, by rfl, by decide⟩
  intro x t r hΓ hr
  simp only [C07TypedEx.badState] at hr
  rw [Scoped.lookupVar_cons, Scoped.lookupVar_nil] at hr
  split at hr
  · rename_i hx
    cases hr
    simp only at hx; subst hx
    have : t = .ptr .float := by
      simp [C07TypedEx.badEnv, lookupTy] at hΓ; exact hΓ.symm
    subst this
    exact ⟨rfl, fun v hv => by cases hv; rfl⟩
  · cases hr

end TV.IR
