import TensoraVerif.Lemmas.IterGraphSemAssign
import TensoraVerif.Lemmas.IterGraphDesugar
import TensoraVerif.Props.C01

/-!
C08 — the candidate iteration graphs of `Model/IterGraph.lean` (`to_iteration_graphs`,
`best_algorithm`).

* G1: the "diagonal access" refusal happens only for a tensor occurrence with a repeated index, and,
  when every tensor has a (valid) format, never otherwise.
* G2: every candidate graph binds the index variables that its terminals use.
* G3: no candidate graph binds an index variable twice on a path.
* G4: every candidate graph denotes (`denoteG`, `Model/IterGraphSem.lean`: loops with an output are
  bound by the environment, loops without one sum) what the desugared right-hand side denotes
  (`denoteD`), provided the contractions are placed hygienically (`Hygienic`, `closedFor`) — which is
  how `desugar` places them; the `*_needs_*` examples show that each clause of `Hygienic` is needed.

The predicates are in `Model/IterGraphSpec.lean`. All three need the format table to be valid
(`ValidFormats`: every `ordering` is a permutation of the levels); the `*_needs_valid` examples show
that the statements fail without it. G1 additionally needs the arity of each occurrence to be the
number of levels of its format (`arityOk`), because `tensorId` pads/truncates silently.
-/
namespace TV.Graph

/-! ### G1 -/

/-- `graphsOf` refuses with "diagonal access" only if some tensor occurrence repeats an index -/
theorem graphsOf_diagonal_only_if (formats : Formats) (e : Alg.DExpr)
    (hv : ValidFormats formats = true) (ha : arityOk formats e = true)
    (h : graphsOf formats e = .error .diagonal) : hasDiagonal e = true :=
  graphsOf_diagonal_only_if' formats hv e ha h

/-- if every tensor name has a format and no occurrence repeats an index, `graphsOf` succeeds -/
theorem graphsOf_ok_of_no_diagonal (formats : Formats) (e : Alg.DExpr)
    (hv : ValidFormats formats = true) (hf : hasFormats formats e = true)
    (ha : arityOk formats e = true) (hd : hasDiagonal e = false) :
    ∃ gs, graphsOf formats e = .ok gs :=
  graphsOf_ok_of_no_diagonal' formats hv e hf ha hd

/-- the same for the whole assignment -/
theorem toIterationGraphs_diagonal_only_if (a : Alg.DAssign) (formats : Formats)
    (hv : ValidFormats formats = true)
    (ha : arityOkAt formats a.tname a.tidx = true ∧ arityOk formats a.rhs = true)
    (h : toIterationGraphs a formats = .error .diagonal) :
    hasDup a.tidx = true ∨ hasDiagonal a.rhs = true :=
  toIterationGraphs_diagonal_only_if' a formats hv ha h

/-- without a repeated index `best_algorithm` returns a graph or reports that there is no kernel; it
does not raise the diagonal error -/
theorem bestAlgorithm_no_diagonal (a : Alg.DAssign) (formats : Formats)
    (hv : ValidFormats formats = true)
    (hf : (formats.find? (·.1 == a.tname)).isSome = true ∧ hasFormats formats a.rhs = true)
    (ha : arityOkAt formats a.tname a.tidx = true ∧ arityOk formats a.rhs = true)
    (hd : hasDup a.tidx = false ∧ hasDiagonal a.rhs = false) :
    (∃ g, bestAlgorithm a formats = .graph g) ∨ bestAlgorithm a formats = .noKernel := by
  obtain ⟨gs, h⟩ := toIterationGraphs_ok_of_no_diagonal' a formats hv hf ha hd
  unfold bestAlgorithm
  rw [h]
  cases gs with
  | nil => exact .inr rfl
  | cons g _ => exact .inl ⟨g, rfl⟩

/-- conversely: when all formats are present, the error outcome of `best_algorithm` means that some
occurrence (the target or a tensor of the right-hand side) repeats an index -/
theorem bestAlgorithm_diagonal_only_if (a : Alg.DAssign) (formats : Formats)
    (hv : ValidFormats formats = true)
    (hf : (formats.find? (·.1 == a.tname)).isSome = true ∧ hasFormats formats a.rhs = true)
    (ha : arityOkAt formats a.tname a.tidx = true ∧ arityOk formats a.rhs = true)
    (h : bestAlgorithm a formats = .diagonal) :
    hasDup a.tidx = true ∨ hasDiagonal a.rhs = true := by
  cases h1 : hasDup a.tidx
  · cases h2 : hasDiagonal a.rhs
    · rcases bestAlgorithm_no_diagonal a formats hv hf ha ⟨h1, h2⟩ with ⟨g, hg⟩ | hg
      · rw [hg] at h; cases h
      · rw [hg] at h; cases h
    · exact .inr rfl
  · exact .inl rfl

/-- `ValidFormats` is needed in G1: with the (invalid) ordering `[0,0]` the occurrence `b(i,j)` is
refused as a diagonal access although it repeats no index -/
theorem graphsOf_diagonal_needs_valid :
    graphsOf [("b", [.dense, .dense], [0, 0])] (.tensor 1 "b" ["i", "j"]) = .error .diagonal ∧
    hasDiagonal (.tensor 1 "b" ["i", "j"]) = false ∧
    arityOk [("b", [.dense, .dense], [0, 0])] (.tensor 1 "b" ["i", "j"]) = true :=
  ⟨rfl, rfl, rfl⟩

/-! ### G2 -/

/-- every candidate graph of an expression binds the index variables its terminals use -/
theorem graphsOf_wellScoped (formats : Formats) (e : Alg.DExpr) (gs : List IGraph)
    (hv : ValidFormats formats = true) (h : graphsOf formats e = .ok gs) :
    ∀ g ∈ gs, WellScoped [] g = true :=
  fun g hg => (graphsOf_good formats hv e gs h g hg).1

/-- every candidate graph of an assignment binds the index variables its terminals use -/
theorem toIterationGraphs_wellScoped (a : Alg.DAssign) (formats : Formats) (gs : List IGraph)
    (hv : ValidFormats formats = true) (h : toIterationGraphs a formats = .ok gs) :
    ∀ g ∈ gs, WellScoped [] g = true :=
  fun g hg => (toIterationGraphs_good a formats hv gs h g hg).1

/-- the graph that `best_algorithm` picks is well scoped -/
theorem bestAlgorithm_wellScoped (a : Alg.DAssign) (formats : Formats) (g : IGraph)
    (hv : ValidFormats formats = true) (h : bestAlgorithm a formats = .graph g) :
    WellScoped [] g = true ∧ NoShadow g = true := by
  unfold bestAlgorithm at h
  split at h
  · cases h
  · cases h
  · rename_i g' rest heq
    injection h with h; subst h
    exact toIterationGraphs_good a formats hv _ heq _ List.mem_cons_self

/-- `ValidFormats` is needed in G2: with one mode for two levels the loop over `j` is missing -/
theorem graphsOf_wellScoped_needs_valid :
    ∃ g, graphsOf [("b", [.dense], [0, 1])] (.tensor 1 "b" ["i", "j"]) = .ok [g] ∧
      WellScoped [] g = false :=
  ⟨_, rfl, rfl⟩

/-! ### G3 -/

/-- no candidate graph of an expression binds an index variable twice on a path -/
theorem graphsOf_noShadow (formats : Formats) (e : Alg.DExpr) (gs : List IGraph)
    (hv : ValidFormats formats = true) (h : graphsOf formats e = .ok gs) :
    ∀ g ∈ gs, NoShadow g = true :=
  fun g hg => (graphsOf_good formats hv e gs h g hg).2

/-- no candidate graph of an assignment binds an index variable twice on a path (that no tensor has a
diagonal is implied by `toIterationGraphs` succeeding) -/
theorem toIterationGraphs_noShadow (a : Alg.DAssign) (formats : Formats) (gs : List IGraph)
    (hv : ValidFormats formats = true) (h : toIterationGraphs a formats = .ok gs) :
    ∀ g ∈ gs, NoShadow g = true :=
  fun g hg => (toIterationGraphs_good a formats hv gs h g hg).2

/-- what `NoShadow` says: the loop variables along every root-to-terminal path are pairwise distinct -/
theorem noShadow_paths (g : IGraph) (h : NoShadow g = true) : ∀ p ∈ g.paths, p.Nodup := by
  intro p hp
  rcases noShadowIn_paths g [] h p hp with h1 | h1
  · simpa using h1
  · exact absurd List.nodup_nil h1

/-- `ValidFormats` is needed in G3: with three modes for one level the padding index `""` is looped
over twice -/
theorem graphsOf_noShadow_needs_valid :
    ∃ g gs, graphsOf [("b", [.dense, .dense, .dense], [0])] (.tensor 1 "b" ["i"]) = .ok (g :: gs) ∧
      NoShadow g = false :=
  ⟨_, _, rfl, rfl⟩

/-! ### G4 -/

open TV.Alg

/-- every candidate graph of an assignment whose contractions are placed hygienically denotes, at every
environment, what the desugared right-hand side denotes: loops over target indexes carry an output and
do not sum, the other loops carry none and sum over their dimension -/
theorem toIterationGraphs_denote (a : DAssign) (formats : Formats) (inputs : Inputs) (sizes : Sizes)
    (gs : List IGraph) (hv : ValidFormats formats = true)
    (ha : arityOkAt formats a.tname a.tidx = true ∧ arityOk formats a.rhs = true)
    (hh : Hygienic a.rhs = true) (hc : closedFor a.tidx a.rhs = true)
    (h : toIterationGraphs a formats = .ok gs) :
    ∀ g ∈ gs, ∀ env, denoteG (leafOf formats inputs) sizes g env = denoteD inputs sizes a.rhs env :=
  toIterationGraphs_sem' a formats inputs sizes hv ha hh hc gs h

/-- the same for the candidates of an expression before the target is woven in, in terms of the
denotation `denoteS` that sums exactly the loops over contracted names -/
theorem graphsOf_denote (formats : Formats) (inputs : Inputs) (sizes : Sizes) (e : DExpr)
    (gs : List IGraph) (hv : ValidFormats formats = true) (ha : arityOk formats e = true)
    (hh : Hygienic e = true) (h : graphsOf formats e = .ok gs) :
    ∀ g ∈ gs, ∀ env, denoteS (leafOf formats inputs) sizes (inB (boundOf e)) g env
      = denoteD inputs sizes e env :=
  graphsOf_sem formats inputs sizes hv e gs h ha hh

/-- the graph that `best_algorithm` picks computes, entry by entry, the desugared assignment -/
theorem bestAlgorithm_denote (a : DAssign) (formats : Formats) (inputs : Inputs) (sizes : Sizes)
    (g : IGraph) (hv : ValidFormats formats = true)
    (ha : arityOkAt formats a.tname a.tidx = true ∧ arityOk formats a.rhs = true)
    (hh : Hygienic a.rhs = true) (hc : closedFor a.tidx a.rhs = true)
    (h : bestAlgorithm a formats = .graph g) (coord : List Nat) :
    denoteG (leafOf formats inputs) sizes g (a.tidx.zip coord) = denoteDA a inputs sizes coord := by
  unfold bestAlgorithm at h
  split at h
  · cases h
  · cases h
  · rename_i g' rest heq
    injection h with h; subst h
    exact toIterationGraphs_denote a formats inputs sizes _ hv ha hh hc heq _ List.mem_cons_self _

/-- outside the known-defect signature of the desugaring pass (`productHoistUnsafe`, C01), `desugar`
places the contractions hygienically -/
theorem desugar_hygienicSource (a : Assign) (hsafe : productHoistUnsafe a.tidx a.rhs = false) :
    hygienicSource a = true :=
  desugar_hygienicSource' a hsafe

/-- end to end with C01: for a source assignment outside the known-defect signature of the desugaring
pass and valid formats of the right arity, every candidate iteration graph computes, entry by entry, the
sum-of-products reading of the assignment -/
theorem toIterationGraphs_denote_source (a : Assign) (formats : Formats) (inputs : Inputs) (sizes : Sizes)
    (gs : List IGraph) (hv : ValidFormats formats = true)
    (ha : arityOkAt formats a.tname a.tidx = true ∧ arityOkS formats a.rhs = true)
    (hsafe : productHoistUnsafe a.tidx a.rhs = false)
    (h : toIterationGraphs (desugar a) formats = .ok gs) (coord : List Nat) :
    ∀ g ∈ gs, denoteG (leafOf formats inputs) sizes g (a.tidx.zip coord) = denote a inputs sizes coord := by
  intro g hg
  have hs := desugar_hygienicSource a hsafe
  simp only [hygienicSource, Bool.and_eq_true] at hs
  rw [← desugar_correct a inputs sizes coord hsafe]
  refine toIterationGraphs_denote (desugar a) formats inputs sizes gs hv ⟨ha.1, ?_⟩ hs.1 hs.2 h g hg _
  show arityOk formats (desugarE a.rhs _ 1).1 = true
  rw [arityOk_desugarE]; exact ha.2

/-- the hygiene hypothesis cannot be dropped from `desugar_hygienicSource`: inside the defect signature
`desugar` can contract a name over a product neither of whose factors loops over it on every path (this
assignment has no candidate graph at all, both factors being sums with inner contractions) -/
theorem desugar_hygienicSource_needs_safe :
    let a : Assign := ⟨"a", ["i"], .mul (.add (.tensor "b" ["i", "j"]) (.tensor "c" ["i", "k"]))
      (.add (.tensor "d" ["i", "j"]) (.tensor "e" ["i", "l"]))⟩
    productHoistUnsafe a.tidx a.rhs = true ∧ hygienicSource a = false := by
  refine ⟨?_, ?_⟩ <;> decide +kernel

/-- `desugar` places the contractions of these assignments hygienically (matrix product; a sum with a
contraction in one term; the same index contracted separately in two terms; subtraction of a
product) -/
theorem desugar_hygienic_examples :
    hygienicSource ⟨"a", ["i", "j"], .mul (.tensor "b" ["i", "k"]) (.tensor "c" ["k", "j"])⟩ = true ∧
    hygienicSource ⟨"a", ["i"], .add (.tensor "b" ["i"])
      (.mul (.tensor "c" ["i", "j"]) (.tensor "d" ["j"]))⟩ = true ∧
    hygienicSource ⟨"a", ["i"], .add (.add (.tensor "b" ["i", "j"]) (.tensor "c" ["i"]))
      (.tensor "d" ["i", "j"])⟩ = true ∧
    hygienicSource ⟨"a", ["i", "j"], .sub (.tensor "b" ["i", "j"])
      (.mul (.tensor "c" ["i", "k"]) (.tensor "d" ["k", "j"]))⟩ = true := by
  refine ⟨?_, ?_, ?_, ?_⟩ <;> decide +kernel

/-- G4 fails for a contraction over a name the body does not loop over (`inEveryPath`):
`a(i) = Σ_j b(i)` is `2·b(i)` for a dimension of size 2, its graph computes `b(i)` -/
theorem denote_needs_inEveryPath :
    let a : DAssign := ⟨"a", ["i"], .contract "j" (.tensor 1 "b" ["i"])⟩
    let formats : Formats := [("a", [.dense], [0]), ("b", [.dense], [0])]
    ∃ g gs, toIterationGraphs a formats = .ok (g :: gs) ∧
      denoteG (leafOf formats fun _ _ => 1) (fun _ => 2) g [] = 1 ∧
      denoteD (fun _ _ => 1) (fun _ => 2) a.rhs [] = 2 :=
  ⟨_, _, rfl, by decide +kernel, by decide +kernel⟩

/-- G4 fails when a contraction scopes over a sum one of whose terms does not loop over the contracted
name (all names distinct): `a(i) = Σ_j (b(i,j) + Σ_k c(i,k))` is `2·(1 + 2) = 6` on all-ones inputs of
size 2, its graph computes `Σ_j b(i,j) + Σ_k c(i,k) = 4` -/
theorem denote_needs_scope :
    let a : DAssign := ⟨"a", ["i"], .contract "j" (.add (.tensor 1 "b" ["i", "j"])
      (.contract "k" (.tensor 2 "c" ["i", "k"])))⟩
    let formats : Formats := [("a", [.dense], [0]), ("b", [.dense, .dense], [0, 1]),
      ("c", [.dense, .dense], [0, 1])]
    ∃ g gs, toIterationGraphs a formats = .ok (g :: gs) ∧
      denoteG (leafOf formats fun _ _ => 1) (fun _ => 2) g [] = 4 ∧
      denoteD (fun _ _ => 1) (fun _ => 2) a.rhs [] = 6 :=
  ⟨_, _, rfl, by decide +kernel, by decide +kernel⟩

/-- G4 fails when both factors of a product contract the same name: `(Σ_j b(i,j)) · (Σ_j c(i,j))` is
`4` on all-ones inputs of size 2, its graph computes `Σ_j b(i,j)·c(i,j) = 2` -/
theorem denote_needs_distinct_names :
    let a : DAssign := ⟨"a", ["i"], .mul (.contract "j" (.tensor 1 "b" ["i", "j"]))
      (.contract "j" (.tensor 2 "c" ["i", "j"]))⟩
    let formats : Formats := [("a", [.dense], [0]), ("b", [.dense, .dense], [0, 1]),
      ("c", [.dense, .dense], [0, 1])]
    ∃ g gs, toIterationGraphs a formats = .ok (g :: gs) ∧
      denoteG (leafOf formats fun _ _ => 1) (fun _ => 2) g [] = 2 ∧
      denoteD (fun _ _ => 1) (fun _ => 2) a.rhs [] = 4 :=
  ⟨_, _, rfl, by decide +kernel, by decide +kernel⟩

end TV.Graph
