import TensoraVerif.Lemmas.LowerableSound
import TensoraVerif.Lemmas.LowerableComplete
import TensoraVerif.Lemmas.LowerableErr
import TensoraVerif.Lemmas.IterGraphScope

/-!
# C08 (lowering): the abstract interpretation `lowerable` versus the lowering pass `lower` / `generateIr`

`Graph.lowerable outModes g s` (Model/IterGraph.lean) predicts whether `generate_ir` gets through the graph
`g`; `Gen.lower` / `Gen.generateIr` (Model/GenerateIR.lean) is the port of `generate_ir` itself. This file
states how the two are related. Abstract and concrete outputs are related by `Output.abs`
(`.append t n ↦ .append n`, `.bucket t layers ↦ .bucket`); the output tensor must have as many indexes as
modes (`t.indexes.length = t.modes.length`, true of every `tensorId` of a valid format table).

Summary.
* **L1 (soundness)** `lowerable → lower succeeds` holds for every kernel kind and every fuel `≥ g.size`
  (in particular for the fuel `4 * g.size + 8` of `generateIr`) on graphs all of whose sums have at least
  two terms (`properSums`); in general it holds for the exhaust-stable strengthening `lowerableX`.
  It is FALSE for `lowerable` on graphs with a one-term sum (`lowerable_sound_needs_properSums`), because
  `lowerable` is not preserved by `IGraph.exhaust`, which collapses such a sum
  (`lowerable_exhaust_needs_properSums`).
* **L2 (completeness)** `lower succeeds → lowerable` is FALSE (`lowerable_complete_false`: a sparse loop
  without compressed dimension — `A(i,j) = 0` — is skipped, so nothing below it is lowered); it holds for
  computing kernels on graphs without such loops (`noSkip`): `lowerable_complete`, and then
  `lowerable_iff_lower_ok`.
* **L3 (error kind)** with sufficient fuel `lower` raises `e` only if the abstract interpretation for that
  error, `noErrX m e`, is `false` (`lower_error_kind`); `.runtime` is never raised by `assemble`.
* **L4 (assemble)** L1 holds verbatim; the weaker `noErrX m .notImplemented` suffices, and nothing is needed
  when the output has no compressed level. `lowerable` is not necessary for `assemble`
  (`lowerable_complete_assemble_false`).
-/
namespace TV.Gen
open TV.IR TV.Graph
variable {F : Type}

/-! ## L1: soundness -/

/-- **L1, general form.** If the exhaust-stable predicate `lowerableX` holds in the abstract state of the
output object `out`, then `lower` succeeds on `g`, for every kernel kind and every fuel `≥ g.size`. -/
theorem lowerableX_sound (ofRat : Rat → F) (k : Kind) (fuel : Nat) (g : IGraph) (out : Output)
    (hfuel : g.size ≤ fuel) (hwf : out.tensor.indexes.length = out.tensor.modes.length)
    (h : lowerableX out.tensor.modes g out.abs = true) :
    ∃ b, lower ofRat fuel g out k = .ok b :=
  lower_ok_of_lowerableX ofRat k fuel g out hfuel hwf h

/-- `lowerableX` implies `lowerable`, and coincides with it when every sum has at least two terms. -/
theorem lowerableX_iff_of_properSums (m : List Mode) (g : IGraph) (s : OutState) (hp : properSums g = true) :
    lowerableX m g s = true ↔ lowerable m g s = true :=
  ⟨lowerableX_imp m g s, lowerableX_of_proper m g s hp⟩

/-- monotonicity: `lowerableX` (and `properSums`) are preserved by `exhaust`, which does not increase the size -/
theorem lowerableX_exhaust_mono (m : List Mode) (ref : String) (g : IGraph) (s : OutState)
    (h : lowerableX m g s = true) :
    lowerableX m (g.exhaust ref) s = true ∧ (g.exhaust ref).size ≤ g.size ∧
      (properSums g = true → properSums (g.exhaust ref) = true) :=
  ⟨lowerableX_exhaust m ref g s h, size_exhaust ref g, properSums_exhaust ref g⟩

/-- monotonicity for `lowerable` itself holds when every sum has at least two terms (the contrapositive is the
exact failure condition: `lowerable` can only be lost by exhausting a graph with a sum of fewer than two terms,
see `lowerable_exhaust_needs_properSums`) -/
theorem lowerable_exhaust_of_properSums (m : List Mode) (ref : String) (g : IGraph) (s : OutState)
    (hp : properSums g = true) (h : lowerable m g s = true) : lowerable m (g.exhaust ref) s = true :=
  lowerableX_imp m _ s (lowerableX_exhaust m ref g s (lowerableX_of_proper m g s hp h))

/-- **L1** for `lowerable`: on a graph all of whose sums have at least two terms, for the abstract/concrete
output pair `out.abs` / `out`, every kernel kind and every fuel `≥ g.size`. -/
theorem lowerable_sound (ofRat : Rat → F) (k : Kind) (fuel : Nat) (g : IGraph) (out : Output)
    (hfuel : g.size ≤ fuel) (hwf : out.tensor.indexes.length = out.tensor.modes.length)
    (hp : properSums g = true) (h : lowerable out.tensor.modes g out.abs = true) :
    ∃ b, lower ofRat fuel g out k = .ok b :=
  lower_ok_of_lowerableX ofRat k fuel g out hfuel hwf (lowerableX_of_proper _ g _ hp h)

/-- **L1** as posed: the initial output object `.append outT 0`. -/
theorem lowerable_sound_append (ofRat : Rat → F) (k : Kind) (fuel : Nat) (g : IGraph) (outT : TensorId)
    (hfuel : g.size ≤ fuel) (hwf : outT.indexes.length = outT.modes.length)
    (hp : properSums g = true) (h : lowerable outT.modes g (.append 0) = true) :
    ∃ b, lower ofRat fuel g (.append outT 0) k = .ok b :=
  lowerable_sound ofRat k fuel g (.append outT 0) hfuel hwf hp h

/-- the output tensor of `generateIr` is well formed when the format table is valid -/
theorem generateIr_outT_wf (a : Alg.DAssign) (formats : Formats) (hv : ValidFormats formats = true) :
    ((tensorId 0 a.tname formats a.tidx).getD default).indexes.length =
      ((tensorId 0 a.tname formats a.tidx).getD default).modes.length := by
  cases h : tensorId 0 a.tname formats a.tidx with
  | none => rfl
  | some t => exact (tensorId_lengths hv h).symm

/-- **L1 for `generateIr`**: the fuel `4 * g.size + 8` it uses is sufficient. For a valid format table and a
graph all of whose sums have at least two terms, if `lowerable` holds for the modes of the output tensor in
the initial state, `generateIr` returns a function, for every kernel kind. -/
theorem generateIr_ok_of_lowerable [FloatOps F] (ofRat : Rat → F) (cap : Option Int) (a : Alg.DAssign)
    (formats : Formats) (g : IGraph) (k : Kind) (hv : ValidFormats formats = true)
    (hp : properSums g = true)
    (h : lowerable ((tensorId 0 a.tname formats a.tidx).getD default).modes g (.append 0) = true) :
    ∃ f, generateIr ofRat cap a formats g k = .ok f := by
  unfold generateIr
  simp only []
  refine isOk_bind ?_ (fun _ _ => isOk_pure _)
  exact lowerable_sound_append ofRat k _ g _ (by omega) (generateIr_outT_wf a formats hv) hp h

/-- the same with `lowerableX` and no hypothesis on the sums -/
theorem generateIr_ok_of_lowerableX [FloatOps F] (ofRat : Rat → F) (cap : Option Int) (a : Alg.DAssign)
    (formats : Formats) (g : IGraph) (k : Kind) (hv : ValidFormats formats = true)
    (h : lowerableX ((tensorId 0 a.tname formats a.tidx).getD default).modes g (.append 0) = true) :
    ∃ f, generateIr ofRat cap a formats g k = .ok f := by
  unfold generateIr
  simp only []
  refine isOk_bind ?_ (fun _ _ => isOk_pure _)
  exact lowerableX_sound ofRat k _ g (.append _ 0) (by omega) (generateIr_outT_wf a formats hv) h

/-! ### the hypothesis `properSums` is needed -/

namespace Cex

/-- output `A(i,j)`, both levels dense -/
def A2 : TensorId := ⟨"0_A", "A", ["i", "j"], [.dense, .dense]⟩
/-- operand `B(i)`, compressed -/
def B1 : TensorId := ⟨"1_B", "B", ["i"], [.compressed]⟩
/-- a one-term sum below the loop over `i` -/
def gBad : IGraph := .iter "i" (some ⟨A2, 0⟩) (.sum [.terminal (.tensor B1)])
/-- its variant with `B` exhausted: the sum is collapsed -/
def gBad' : IGraph := .iter "i" (some ⟨A2, 0⟩) (.terminal (.int 0))

theorem gBad_exhaust : gBad.exhaust "1_B" = gBad' := by rfl
theorem gBad_subgraphs : generateSubgraphs gBad = [gBad, gBad'] := by rfl

end Cex

/-- monotonicity FAILS for `lowerable`: exhausting `B` in `A(i,j) = Σ[B(i)]` collapses the one-term sum, and the
terminal is then reached in state `append 1` (one output level short) instead of `bucket`. -/
theorem lowerable_exhaust_needs_properSums :
    lowerable Cex.A2.modes Cex.gBad (.append 0) = true ∧
      lowerable Cex.A2.modes (Cex.gBad.exhaust "1_B") (.append 0) = false := by
  rw [Cex.gBad_exhaust]; decide

/-- L1 FAILS for `lowerable` without `properSums`: `lowerable = true`, but a computing kernel is not lowered,
whatever the fuel (`write_assignment` raises on the collapsed variant). -/
theorem lowerable_sound_needs_properSums (ofRat : Rat → F) (fuel : Nat) (k : Kind) (hk : k.isCompute = true) :
    lowerable Cex.A2.modes Cex.gBad (.append 0) = true ∧
      ¬ ∃ b, lower ofRat fuel Cex.gBad (.append Cex.A2 0) k = .ok b := by
  refine ⟨by decide, ?_⟩
  rintro ⟨b, h⟩
  cases fuel with
  | zero => unfold lower at h; cases h
  | succ n =>
    obtain ⟨nx, decls, hnext, hall⟩ := lower_iter_inv ofRat k n _ _ _ _ b (by simp [hk]) h
    have hnx : nx = .append Cex.A2 1 := by simp [Output.next] at hnext; exact hnext.1.symm
    subst hnx
    have := hall Cex.gBad (by rw [show IGraph.iter _ _ _ = Cex.gBad from rfl, Cex.gBad_subgraphs]; simp) (by rfl)
      Cex.gBad' (by rw [Cex.gBad_subgraphs]; simp) (by rfl)
    obtain ⟨b', h'⟩ := this
    cases n with
    | zero => unfold lower at h'; cases h'
    | succ m =>
      have := lower_terminal_inv ofRat k hk m _ _ b' h'
      simp [Output.writeAssignment, Cex.A2] at this
      exact not_isOk_error _ this

/-! ## L2: completeness -/

namespace Cex

/-- output `A(i,j)`, both levels compressed -/
def Ass : TensorId := ⟨"0_A", "A", ["i", "j"], [.compressed, .compressed]⟩
/-- `A(i,j) = 0` where the loop over `j` does not carry its output level: the loop over `i` is sparse and
has no compressed dimension, its only branch is skipped -/
def gZero : IGraph := .iter "i" (some ⟨Ass, 0⟩) (.iter "j" none (.terminal (.int 0)))

theorem gZero_subgraphs : generateSubgraphs gZero = [gZero] := by rfl

end Cex

/-- L2 FAILS in general: `lower` succeeds (for every kind, every fuel `≥ 1`) although `lowerable = false`,
because the offending node (the loop over `j`, which would need `next_output` in state `append 1` with a
compressed level left) lies in a branch that `lower` skips (`is_sparse` and no compressed dimension). -/
theorem lowerable_complete_false (ofRat : Rat → F) (n : Nat) (k : Kind) :
    lowerable Cex.Ass.modes Cex.gZero (.append 0) = false ∧
      (∃ b, lower ofRat (n + 1) Cex.gZero (.append Cex.Ass 0) k = .ok b) ∧
      noSkip Cex.gZero = false := by
  refine ⟨by decide, ?_, by rfl⟩
  have h1 := Cex.gZero_subgraphs
  have h2 : ((nodeContext Cex.gZero).isSparse &&
      ((some (⟨Cex.Ass, 0⟩ : Leaf)).isNone || isSparseOutput Cex.gZero)) = true := by rfl
  unfold Cex.gZero at h1 h2 ⊢
  unfold lower
  simp only [h1, h2]
  split
  · exact isOk_pure _
  refine isOk_bind ?_ ?_
  · exact ⟨(.append Cex.Ass 1, SB.empty), by simp [Output.next]⟩
  · rintro ⟨nextOut, decls⟩ _
    simp only [List.foldlM_cons, List.foldlM_nil, if_true]
    exact isOk_bind (isOk_bind (isOk_pure _) (fun _ _ => isOk_pure _)) (fun _ _ => isOk_pure _)

/-- an iteration node is always one of its own sub-graphs: unless its branch is skipped, `lower` does lower
`next` itself in the output state `next_output` returned -/
theorem iter_mem_generateSubgraphs (i : String) (o : Option Leaf) (n : IGraph) :
    IGraph.iter i o n ∈ generateSubgraphs (.iter i o n) :=
  generateSubgraphs_self i o n

/-- **L2, restricted.** For a computing kernel (`evaluate` / `compute`) and a graph none of whose iteration
nodes is a sparse loop without compressed dimension (`noSkip`), success of `lower` (any fuel) implies
`lowerable` in the abstract state of the output object. -/
theorem lowerable_complete (ofRat : Rat → F) (k : Kind) (hk : k.isCompute = true) (fuel : Nat) (g : IGraph)
    (out : Output) (b : SB F) (hwf : out.tensor.indexes.length = out.tensor.modes.length)
    (hns : noSkip g = true) (h : lower ofRat fuel g out k = .ok b) :
    lowerable out.tensor.modes g out.abs = true :=
  lowerable_of_lower_ok ofRat k hk fuel g out hwf hns ⟨b, h⟩

/-- **L1 + L2**: on graphs with proper sums and no skipped loop, for a computing kernel and sufficient fuel,
`lowerable` decides exactly whether `lower` succeeds. -/
theorem lowerable_iff_lower_ok (ofRat : Rat → F) (k : Kind) (hk : k.isCompute = true) (fuel : Nat) (g : IGraph)
    (out : Output) (hfuel : g.size ≤ fuel) (hwf : out.tensor.indexes.length = out.tensor.modes.length)
    (hp : properSums g = true) (hns : noSkip g = true) :
    lowerable out.tensor.modes g out.abs = true ↔ ∃ b, lower ofRat fuel g out k = .ok b :=
  ⟨lowerable_sound ofRat k fuel g out hfuel hwf hp,
   fun ⟨b, h⟩ => lowerable_complete ofRat k hk fuel g out b hwf hns h⟩

/-- the same for `generateIr` -/
theorem lowerable_iff_generateIr_ok [FloatOps F] (ofRat : Rat → F) (cap : Option Int) (a : Alg.DAssign)
    (formats : Formats) (g : IGraph) (k : Kind) (hk : k.isCompute = true) (hv : ValidFormats formats = true)
    (hp : properSums g = true) (hns : noSkip g = true) :
    lowerable ((tensorId 0 a.tname formats a.tidx).getD default).modes g (.append 0) = true ↔
      ∃ f, generateIr ofRat cap a formats g k = .ok f := by
  refine ⟨generateIr_ok_of_lowerable ofRat cap a formats g k hv hp, ?_⟩
  rintro ⟨f, hf⟩
  unfold generateIr at hf
  simp only [] at hf
  obtain ⟨body, hbody, _⟩ := bind_ok hf
  exact lowerable_complete ofRat k hk _ g (.append _ 0) body (generateIr_outT_wf a formats hv) hns hbody

/-! ## L3: which error -/

/-- **L3.** With fuel `≥ g.size`, `lower` raises the error `e` only if the abstract interpretation for that
error is `false`: `noErrX m .notImplemented` = "`next_output` is defined along every path", `noErrX m .runtime`
= "every terminal is reached in a state where `write_assignment` is defined" (both in exhaust-stable form).
In particular the fuel never runs out (`.runtime` from `lower 0`). -/
theorem lower_error_kind (ofRat : Rat → F) (e : GenErr) (k : Kind) (fuel : Nat) (g : IGraph) (out : Output)
    (hfuel : g.size ≤ fuel) (hwf : out.tensor.indexes.length = out.tensor.modes.length)
    (h : lower ofRat fuel g out k = .error e) :
    noErrX out.tensor.modes e g out.abs = false := by
  cases hc : noErrX out.tensor.modes e g out.abs with
  | false => rfl
  | true => exact absurd h (lower_notErr ofRat e k fuel g out hfuel hwf (Or.inr hc))

/-- `lowerableX` is exactly "neither error": the two comments of `lowerable`'s definition -/
theorem lowerableX_iff_noErrX (m : List Mode) (g : IGraph) (s : OutState) :
    lowerableX m g s = true ↔ noErrX m .runtime g s = true ∧ noErrX m .notImplemented g s = true :=
  ⟨fun h => ⟨noErrX_of_lowerableX m _ g s h, noErrX_of_lowerableX m _ g s h⟩,
   fun h => lowerableX_of_noErrX m g s h.1 h.2⟩

/-- a kernel that only assembles never raises `RuntimeError` (it never calls `write_assignment`): with
sufficient fuel its only possible error is `NotImplementedError` -/
theorem lower_assemble_error (ofRat : Rat → F) (e : GenErr) (k : Kind) (hk : k.isCompute = false) (fuel : Nat)
    (g : IGraph) (out : Output) (hfuel : g.size ≤ fuel)
    (hwf : out.tensor.indexes.length = out.tensor.modes.length)
    (h : lower ofRat fuel g out k = .error e) : e = .notImplemented := by
  cases e with
  | notImplemented => rfl
  | runtime => exact absurd h (lower_notErr ofRat .runtime k fuel g out hfuel hwf (Or.inl ⟨hk, rfl⟩))

/-! ## L4: `assemble` -/

/-- **L4.** For a kernel that only assembles, "`next_output` is defined along every path"
(`noErrX m .notImplemented`, implied by `lowerableX`, hence by `lowerable` with proper sums) suffices: terminals
are not written. (L1 itself, `lowerable_sound`, holds for every kind, `assemble` included.) -/
theorem lower_assemble_ok (ofRat : Rat → F) (k : Kind) (hk : k.isCompute = false) (fuel : Nat) (g : IGraph)
    (out : Output) (hfuel : g.size ≤ fuel) (hwf : out.tensor.indexes.length = out.tensor.modes.length)
    (h : noErrX out.tensor.modes .notImplemented g out.abs = true) :
    ∃ b, lower ofRat fuel g out k = .ok b := by
  apply isOk_of_notErr
  intro e
  cases e with
  | notImplemented => exact lower_notErr ofRat _ k fuel g out hfuel hwf (Or.inr h)
  | runtime => exact lower_notErr ofRat _ k fuel g out hfuel hwf (Or.inl ⟨hk, rfl⟩)

/-- when the output has no compressed level, an assembling kernel is lowered whatever the graph (the early
return of `to_ir_iteration_graph`) -/
theorem lower_assemble_dense_ok (ofRat : Rat → F) (k : Kind) (hk : k.isCompute = false) (n : Nat) (g : IGraph)
    (out : Output) (hd : out.hasSparseLayer = false) :
    ∃ b, lower ofRat (n + 1) g out k = .ok b := by
  cases g with
  | terminal e => unfold lower; simp only [hk]; exact isOk_pure _
  | sum ts => unfold lower; simp only [hk, hd]; exact isOk_pure _
  | iter i o nx => unfold lower; simp only [hk, hd]; exact isOk_pure _

/-- for `assemble` the converse fails even without any loop: the terminal is not written, so it may be
reached in any state -/
theorem lowerable_complete_assemble_false (ofRat : Rat → F) (e : IdExpr) :
    lowerable Cex.Ass.modes (.terminal e) (.append 0) = false ∧ noSkip (.terminal e) = true ∧
      ∃ b, lower ofRat 1 (.terminal e) (.append Cex.Ass 0) .assemble = .ok b := by
  refine ⟨by simp [lowerable, Cex.Ass], rfl, ?_⟩
  unfold lower
  simp only [Kind.isCompute]
  exact isOk_pure _

/-! ## non-vacuity -/

namespace Cex

/-- output `A(i,j)`, format `ds` -/
def Ads : TensorId := ⟨"0_A", "A", ["i", "j"], [.dense, .compressed]⟩
/-- operand `B(j,i)`, format `ds` -/
def Bds : TensorId := ⟨"1_B", "B", ["j", "i"], [.dense, .compressed]⟩
/-- operand `C(i,j)`, format `ds` -/
def Cds : TensorId := ⟨"1_C", "C", ["i", "j"], [.dense, .compressed]⟩
/-- `A(i,j) = C(i,j)`: the output levels are met in order -/
def gCopy : IGraph := .iter "i" (some ⟨Ads, 0⟩) (.iter "j" (some ⟨Ads, 1⟩) (.terminal (.tensor Cds)))
/-- `A(i,j) = B(j,i)` (transposition, the only legal order for `B` is `j, i`): the compressed output level `1`
is met first -/
def gTranspose : IGraph := .iter "j" (some ⟨Ads, 1⟩) (.iter "i" (some ⟨Ads, 0⟩) (.terminal (.tensor Bds)))

/-- output `A(i,j,k)`, format `dds` -/
def Adds : TensorId := ⟨"0_A", "A", ["i", "j", "k"], [.dense, .dense, .compressed]⟩
/-- operand `B(i,k,j)`, dense -/
def Bddd : TensorId := ⟨"1_B", "B", ["i", "k", "j"], [.dense, .dense, .dense]⟩
/-- `A(i,j,k) = B(i,k,j)` iterated `i, k, j`: the compressed output level `2` is reached before level `1` -/
def gDds : IGraph :=
  .iter "i" (some ⟨Adds, 0⟩) (.iter "k" (some ⟨Adds, 2⟩) (.iter "j" (some ⟨Adds, 1⟩) (.terminal (.tensor Bddd))))

end Cex

/-- a lowerable graph: the predicate is `true`, all hypotheses of L1/L2 hold, and `lower` succeeds -/
example (ofRat : Rat → F) (k : Kind) :
    lowerable Cex.Ads.modes Cex.gCopy (.append 0) = true ∧ properSums Cex.gCopy = true ∧
      noSkip Cex.gCopy = true ∧ ∃ b, lower ofRat 3 Cex.gCopy (.append Cex.Ads 0) k = .ok b :=
  ⟨by decide, by decide, by rfl,
   lowerable_sound_append ofRat k 3 Cex.gCopy Cex.Ads (by decide) rfl (by decide) (by decide)⟩

/-- the shape behind the real defect: `lowerable = false` and `lower` raises `NotImplementedError`, for every
kind and every positive fuel -/
theorem lower_transpose_notImplemented (ofRat : Rat → F) (n : Nat) (k : Kind) :
    lowerable Cex.Ads.modes Cex.gTranspose (.append 0) = false ∧
      lower ofRat (n + 1) Cex.gTranspose (.append Cex.Ads 0) k = .error .notImplemented := by
  refine ⟨by decide, ?_⟩
  unfold Cex.gTranspose lower
  cases k <;>
    simp [Output.next, Cex.Ads, Kind.isCompute, Output.hasSparseLayer, Output.tensor, bind, Except.bind]

/-- the `dds` shape, where the failing `next_output` is one loop down: derived from L2 (no success) and L3
(not `.runtime`) -/
theorem lower_dds_notImplemented (ofRat : Rat → F) (k : Kind) (hk : k.isCompute = true) (fuel : Nat)
    (hfuel : 4 ≤ fuel) :
    lowerable Cex.Adds.modes Cex.gDds (.append 0) = false ∧
      lower ofRat fuel Cex.gDds (.append Cex.Adds 0) k = .error .notImplemented := by
  refine ⟨by decide, ?_⟩
  cases h : lower ofRat fuel Cex.gDds (.append Cex.Adds 0) k with
  | ok b =>
    have hl : lowerable Cex.Adds.modes Cex.gDds (.append 0) = false := by decide
    have : lowerable Cex.Adds.modes Cex.gDds (.append 0) = true :=
      lowerable_complete ofRat k hk fuel Cex.gDds (.append Cex.Adds 0) b rfl (by rfl) h
    rw [hl] at this; cases this
  | error e =>
    cases e with
    | notImplemented => rfl
    | runtime =>
      have hr : noErrX Cex.Adds.modes .runtime Cex.gDds (.append 0) = true := by decide
      have : noErrX Cex.Adds.modes .runtime Cex.gDds (.append 0) = false :=
        lower_error_kind ofRat .runtime k fuel Cex.gDds (.append Cex.Adds 0) hfuel rfl h
      rw [hr] at this; cases this

end TV.Gen
