import TensoraVerif.Lemmas.Storage
import TensoraVerif.Lemmas.StorageRoundTripDec
import TensoraVerif.Lemmas.StorageRoundTripWf
import TensoraVerif.Lemmas.StorageRoundTripPerm

/-!
C09 — property theorems about the storage model (`Model/Storage.lean`).
Only statements that correspond to sentences of the property live here.
-/
namespace TV.Storage

/-- "The stored structure is canonical": the result of `from_aos` does not depend on the order in
which the entries are supplied (sorted / reversed / shuffled input give the same arrays). -/
theorem encode_order_independent (modes : List Mode) (ordering dims : List Nat)
    {entries entries' : List (List Int × Int)} (h : entries.Perm entries') :
    encode modes ordering dims entries = encode modes ordering dims entries' := by
  unfold encode
  have hall : entries.all (fun e => (toLevelOrder ordering e.1).isSome)
      = entries'.all (fun e => (toLevelOrder ordering e.1).isSome) := by
    rw [Bool.eq_iff_iff]; simp only [List.all_eq_true]
    exact ⟨fun hh x hx => hh x (h.mem_iff.mpr hx), fun hh x hx => hh x (h.mem_iff.mp hx)⟩
  have henc := enc_perm modes (ordering.map fun i => dims.getD i 0)
    (h.filterMap fun e => (toLevelOrder ordering e.1).map fun c => (c, e.2))
  simp only [hall, henc]

/-- "sorted, duplicate-free": the coordinates emitted for the children of any node are strictly
increasing. -/
theorem keys_strictly_increasing (es : List Entry) : (keys es).Pairwise (· < ·) := keys_sinc es

/-- and they are exactly the first coordinates present below the node (nothing lost, nothing
invented). -/
theorem keys_complete (es : List Entry) (k : Int) :
    k ∈ keys es ↔ ∃ e ∈ es, e.1.head? = some k := keys_mem es k

/-- non-vacuity / sanity: a CSC matrix built from shuffled duplicated input. -/
example :
    encode [.dense, .compressed] [1, 0] [2, 3] [([1, 2], 7), ([0, 1], 5), ([0, 1], 1)]
      = .ok ⟨[2, 3], [1, 0],
          [⟨.dense, [], []⟩, ⟨.compressed, [0, 0, 1, 2], [0, 1]⟩], [6, 7]⟩ := by rfl

/-! ### Lossless round trip -/

/-- the value a list of (coordinate, value) pairs assigns to `c`: duplicates are summed, absent = 0 -/
def valueAt (es : List (List Int × Int)) (c : List Int) : Int :=
  (es.filter (fun e => e.1 = c)).foldl (fun a e => a + e.2) 0

/-- `c` is a coordinate inside the box `dims` -/
def InRange (dims : List Nat) (c : List Int) : Prop :=
  c.length = dims.length ∧ ∀ k (h : k < c.length), 0 ≤ c[k] ∧ c[k] < (dims.getD k 0 : Nat)

theorem valueAt_eq_valAt : valueAt = valAt := rfl
theorem InRange_eq_InRangeL : InRange = InRangeL := rfl

/-- C09 main theorem: for every format (any modes, any permutation ordering), any dimensions
(including 0) and any finite list of in-range coordinates (unsorted, with duplicates), construction
succeeds, the stored structure is well-formed, read-back succeeds without any out-of-range array
access, yields each coordinate at most once, only in-range coordinates, and assigns to every
coordinate exactly the sum of the supplied values. -/
theorem decode_encode (modes : List Mode) (ordering dims : List Nat) (entries : List (List Int × Int))
    (hv : validOrdering ordering modes.length = true) (hd : dims.length = modes.length)
    (hin : ∀ e ∈ entries, InRange dims e.1) :
    ∃ t items, encode modes ordering dims entries = .ok t ∧ wfCheck t = true ∧
      decode t = some items ∧ (items.map (·.1)).Nodup ∧ (∀ e ∈ items, InRange dims e.1) ∧
      ∀ c, valueAt items c = valueAt entries c := by
  rw [valueAt_eq_valAt, InRange_eq_InRangeL] at *
  have hvo := validOrd_of hv
  have hlenE : ∀ e ∈ entries, e.1.length = modes.length := fun e he => by rw [(hin e he).1, hd]
  -- the level-order entries
  have hall : entries.all (fun e => (toLevelOrder ordering e.1).isSome) = true := by
    rw [List.all_eq_true]; intro e he
    rw [toLevelOrder_eq hvo (hlenE e he)]; rfl
  have hfm : entries.filterMap (fun e => (toLevelOrder ordering e.1).map fun c => (c, e.2))
      = entries.map (fun e => (lo ordering e.1, e.2)) := by
    have : ∀ l : List (List Int × Int), (∀ e ∈ l, e.1.length = modes.length) →
        l.filterMap (fun e => (toLevelOrder ordering e.1).map fun c => (c, e.2))
          = l.map (fun e => (lo ordering e.1, e.2)) := by
      intro l
      induction l with
      | nil => simp
      | cons x xs ih =>
        intro h
        rw [List.filterMap_cons, toLevelOrder_eq hvo (h x (by simp)),
          ih (fun e he => h e (by simp [he]))]
        rfl
    exact this entries hlenE
  generalize hes : entries.map (fun e => (lo ordering e.1, e.2)) = es at hfm
  generalize hld : (ordering.map fun i => dims.getD i 0) = levelDims
  have hok : ∀ e ∈ es, CoordOk modes levelDims e.1 := by
    intro e he
    rw [← hes] at he
    obtain ⟨e', he', rfl⟩ := List.mem_map.mp he
    rw [← hld]
    exact coordOk_lo hvo hd (hin e' he')
  have hinv := Inv_enc modes levelDims es hok
  have hcrd := crdRangeOk_of_Inv modes levelDims _ _ 1 0 hinv
  have hwf := wfLevels_of_Inv modes levelDims _ _ 1 hinv
  have hdec := dec_enc_top modes levelDims es hok
  have hI := items0_coordOk modes levelDims es hok
  have hlev := mkLevels_length modes _ (enc_length modes levelDims es)
  refine ⟨⟨dims, ordering, mkLevels modes (enc modes levelDims es).1, (enc modes levelDims es).2⟩,
    (items0 modes levelDims es).map (fun e => (fromLevelOrder ordering e.1, e.2)), ?_, ?_, ?_, ?_, ?_, ?_⟩
  · unfold encode
    simp only [hv, hd, hall, hfm, hld, hcrd, and_self, not_true_eq_false, if_false]
  · simp only [wfCheck, Stored.levelDims, hld, hlev, hv, hd, hwf, Bool.true_and, beq_self_eq_true]
  · simp only [decode, Stored.levelDims, hld, hdec, Option.map_some]
  · rw [List.map_map]
    have hnd := items0_nodup modes levelDims es
    rw [List.nodup_iff_pairwise_ne, List.pairwise_map] at hnd ⊢
    refine hnd.imp_of_mem ?_
    intro a b ha hb hab h
    apply hab
    have la := (coordOk_getD _ _ _ (hI a ha)).1
    have lb := (coordOk_getD _ _ _ (hI b hb)).1
    have := congrArg (lo ordering) h
    simp only [Function.comp_def] at this
    rwa [lo_from hvo la, lo_from hvo lb] at this
  · intro e he
    obtain ⟨e', he', rfl⟩ := List.mem_map.mp he
    have := hI e' he'
    rw [← hld] at this
    exact inRangeL_from hvo hd this
  · intro c
    by_cases hc : c.length = modes.length
    · have h1 := valAt_map_inj (fromLevelOrder ordering) (items0 modes levelDims es) (lo ordering c)
        (fun e he h => by
          have le := (coordOk_getD _ _ _ (hI e he)).1
          have := congrArg (lo ordering) h
          rwa [lo_from hvo le, lo_from hvo (by rw [lo_length, hvo.len])] at this)
      have h2 := valAt_map_inj (lo ordering) entries c
        (fun e he h => by
          have := congrArg (fromLevelOrder ordering) h
          rwa [from_lo hvo (hlenE e he), from_lo hvo hc] at this)
      rw [from_lo hvo hc] at h1
      rw [h1, valAt_items0 modes levelDims es hok, ← hes, h2]
    · rw [valAt_eq_zero, valAt_eq_zero]
      · intro e he h
        exact hc (by rw [← h]; exact hlenE e he)
      · intro e he h
        obtain ⟨e', _, rfl⟩ := List.mem_map.mp he
        apply hc
        rw [← h]
        simp only [fromLevelOrder_length, hvo.len]

/-- non-vacuity: the hypotheses of `decode_encode` are satisfiable for a permuted ordering with
shuffled, duplicated input (the CSC example above). -/
example : ∃ t items,
    encode [.dense, .compressed] [1, 0] [2, 3] [([1, 2], 7), ([0, 1], 5), ([0, 1], 1)] = .ok t ∧
    wfCheck t = true ∧ decode t = some items ∧ (items.map (·.1)).Nodup ∧
    (∀ e ∈ items, InRange [2, 3] e.1) ∧
    ∀ c, valueAt items c = valueAt [([1, 2], 7), ([0, 1], 5), ([0, 1], 1)] c :=
  decode_encode _ _ _ _ (by decide) (by decide) (by
    intro e he
    simp only [List.mem_cons, List.not_mem_nil, or_false] at he
    rcases he with rfl | rfl | rfl <;> refine ⟨by decide, ?_⟩ <;> intro k h <;>
      (have : k = 0 ∨ k = 1 := by simp at h; omega) <;> rcases this with rfl | rfl <;> simp)

end TV.Storage
