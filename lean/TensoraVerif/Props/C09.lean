import TensoraVerif.Lemmas.Storage

/-!
C09 — property theorems about the storage model (`Model/Storage.lean`).
Only statements that correspond to sentences of the property live here.
-/
namespace TV.Storage

/-- "The stored structure is canonical": the result of `from_aos` does not depend on the order in
which the entries are supplied (sorted / reversed / shuffled input give the same arrays). -/
theorem encode_order_independent (modes : List Mode) (ordering dims : List Nat)
    {entries entries' : List (List Int × Int)} (h : entries.Perm entries') :
    encode modes ordering dims entries = encode modes ordering dims entries' := by
  unfold encode
  have hall : entries.all (fun e => (toLevelOrder ordering e.1).isSome)
      = entries'.all (fun e => (toLevelOrder ordering e.1).isSome) := by
    rw [Bool.eq_iff_iff]; simp only [List.all_eq_true]
    exact ⟨fun hh x hx => hh x (h.mem_iff.mpr hx), fun hh x hx => hh x (h.mem_iff.mp hx)⟩
  have henc := enc_perm modes (ordering.map fun i => dims.getD i 0)
    (h.filterMap fun e => (toLevelOrder ordering e.1).map fun c => (c, e.2))
  simp only [hall, henc]

/-- "sorted, duplicate-free": the coordinates emitted for the children of any node are strictly
increasing. -/
theorem keys_strictly_increasing (es : List Entry) : (keys es).Pairwise (· < ·) := keys_sinc es

/-- and they are exactly the first coordinates present below the node (nothing lost, nothing
invented). -/
theorem keys_complete (es : List Entry) (k : Int) :
    k ∈ keys es ↔ ∃ e ∈ es, e.1.head? = some k := keys_mem es k

/-- non-vacuity / sanity: a CSC matrix built from shuffled duplicated input. -/
example :
    encode [.dense, .compressed] [1, 0] [2, 3] [([1, 2], 7), ([0, 1], 5), ([0, 1], 1)]
      = .ok ⟨[2, 3], [1, 0],
          [⟨.dense, [], []⟩, ⟨.compressed, [0, 0, 1, 2], [0, 1]⟩], [6, 7]⟩ := by rfl

end TV.Storage
