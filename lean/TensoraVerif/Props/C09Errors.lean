import TensoraVerif.Props.C09

/-!
C09 — the refusal branches of construction (`Model/Storage.lean`, `encode`), stated explicitly so that
the round-trip theorem `decode_encode` is not true "for the wrong reason": outside its hypotheses the
model (like `Tensor.from_aos`) refuses, it does not silently default.
-/
namespace TV.Storage

/-- a mode ordering that is not a permutation of the levels, or a dimension tuple of the wrong
length, is refused whatever the entries are -/
theorem encode_badOrdering (modes : List Mode) (ordering dims : List Nat)
    (entries : List (List Int × Int))
    (h : ¬ (validOrdering ordering modes.length = true ∧ dims.length = modes.length)) :
    encode modes ordering dims entries = .error .badOrdering := by
  unfold encode
  simp only [h, not_false_eq_true, if_true]

/-- `mapM` over an ordering that mentions an index beyond the coordinate fails -/
theorem toLevelOrder_none_of_mem {ordering : List Nat} {c : List Int} {i : Nat}
    (hi : i ∈ ordering) (hc : c.length ≤ i) : toLevelOrder ordering c = none := by
  unfold toLevelOrder
  induction ordering with
  | nil => cases hi
  | cons x xs ih =>
    rw [List.mapM_cons]
    rcases List.mem_cons.mp hi with rfl | hmem
    · have : c[i]? = none := List.getElem?_eq_none hc
      simp [this]
    · cases hx : c[x]? with
      | none => simp
      | some v => simp [ih hmem]

/-- a coordinate with fewer components than the tensor has levels is refused (with a valid ordering
and dimension tuple): the whole construction fails, no entry is dropped silently -/
theorem encode_short_coordinate (modes : List Mode) (ordering dims : List Nat)
    (entries : List (List Int × Int))
    (hv : validOrdering ordering modes.length = true) (hd : dims.length = modes.length)
    (hshort : ∃ e ∈ entries, e.1.length < modes.length) :
    encode modes ordering dims entries = .error .badCoordinateLength := by
  obtain ⟨e, he, hlt⟩ := hshort
  have hvo := validOrd_of hv
  have hnone : toLevelOrder ordering e.1 = none :=
    toLevelOrder_none_of_mem (hvo.covers e.1.length hlt) (Nat.le_refl _)
  have hall : entries.all (fun e => (toLevelOrder ordering e.1).isSome) = false := by
    rw [List.all_eq_false]
    exact ⟨e, he, by simp [hnone]⟩
  unfold encode
  simp [hv, hd, hall]

/-- read-back does not depend on the order in which the entries were supplied -/
theorem decode_encode_perm (modes : List Mode) (ordering dims : List Nat)
    {entries entries' : List (List Int × Int)} (h : entries.Perm entries') :
    (encode modes ordering dims entries).toOption.bind decode
      = (encode modes ordering dims entries').toOption.bind decode := by
  rw [encode_order_independent modes ordering dims h]

/-- non-vacuity: the refusals fire on concrete requests -/
example : encode [.dense, .compressed] [0, 0] [2, 3] [([0, 1], 5)] = .error .badOrdering := by rfl
example : encode [.dense, .compressed] [1, 0] [2, 3] [([0, 1], 5), ([1], 7)]
    = .error .badCoordinateLength :=
  encode_short_coordinate _ _ _ _ (by decide) (by decide) ⟨([1], 7), by simp, by decide⟩

end TV.Storage
