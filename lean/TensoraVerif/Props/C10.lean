import TensoraVerif.Lemmas.ApiCall

/-!
C10 — a compiled kernel is entered exactly on consistent arguments (`callCheck`, `Model/Api.lean`,
port of `TensorMethod.__call__` up to the kernel call).

`dimOf args n d` (`Lemmas/ApiCall.lean`) is the size of dimension `d` of the argument named `n`; it is the
very look-up the code performs (0 when there is no such argument / dimension). Under the well-formedness
hypothesis `hr` and `Consistent` the defaults are never hit: see `dimOf_of_consistent`.
-/
namespace TV.Api

/-- Exactly the declared input parameters are supplied (same set of names, no name twice), each is a tensor
whose number of dimensions, modes and ordering equal the declared format's, and for every index variable of
the right-hand side all tensor dimensions addressed by that index — including every occurrence of a tensor
used several times — have the same size. -/
def Consistent (p : Problem) (args : List (String × Arg)) : Prop :=
  (args.map (·.1)).Nodup ∧
  (∀ n, n ∈ args.map (·.1) ↔ n ∈ (inputFormats p).map (·.1)) ∧
  (∀ n f, (n, f) ∈ inputFormats p →
    ∃ ms o d, (n, Arg.tensor ms o d) ∈ args ∧ d.length = f.order ∧ ms = f.modes ∧ o = f.ordering) ∧
  (∀ r₁ ∈ p.assign.refs, ∀ r₂ ∈ p.assign.refs, ∀ d₁ d₂, d₁ < r₁.idx.length → d₂ < r₂.idx.length →
    r₁.idx[d₁]! = r₂.idx[d₂]! → dimOf args r₁.name d₁ = dimOf args r₂.name d₂)

/-- C10. `hf`: format names are dictionary keys. (The second well-formedness fact, `hr` below, is not needed
for the equivalence because `dimOf` is the code's own look-up; it is what makes `dimOf` meaningful.) -/
theorem callCheck_ok_iff (p : Problem) (args : List (String × Arg))
    (hf : ((inputFormats p).map (·.1)).Nodup) :
    (∃ dims, callCheck p args = .ok dims) ↔ Consistent p args := by
  have hstage : (∃ dims, callCheck p args = .ok dims) ↔
      namesOk (inputFormats p) args = true ∧ perParam args (inputFormats p) = none ∧
        sizesOk p.assign args = true := by
    rw [callCheck_eq]
    cases h1 : namesOk (inputFormats p) args <;> simp only [Bool.not_false, Bool.not_true, if_true]
    · simp
    · cases h2 : perParam args (inputFormats p) with
      | some e => simp
      | none =>
        cases h3 : sizesOk p.assign args <;> simp
  rw [hstage, namesOk_iff, perParam_none_iff, sizesOk_iff]
  constructor
  · rintro ⟨⟨h1, h2, h3⟩, hp, hs⟩
    have hperm := perm_of_nodup_subset_length _ (args.map (·.1)) hf h2 (by simp [h3])
    have hnd : (args.map (·.1)).Nodup := hperm.nodup_iff.mpr hf
    refine ⟨hnd, fun n => ⟨h1 n, h2 n⟩, ?_, hs⟩
    intro n f hnf
    obtain ⟨n', ms, o, d, hfind, hrest⟩ := (paramCheck_none_iff args (n, f)).mp (hp _ hnf)
    exact ⟨ms, o, d, (find?_key_eq_some_iff hnd n _).mp ⟨n', hfind⟩, hrest⟩
  · rintro ⟨hnd, hn, hfm, hs⟩
    refine ⟨⟨fun n => (hn n).mp, fun n => (hn n).mpr, ?_⟩, ?_, hs⟩
    · have := ((List.perm_ext_iff_of_nodup hnd hf).mpr hn).length_eq
      simpa using this
    · rintro ⟨n, f⟩ hnf
      obtain ⟨ms, o, d, hmem, hrest⟩ := hfm n f hnf
      obtain ⟨n', hfind⟩ := (find?_key_eq_some_iff hnd n _).mpr hmem
      exact (paramCheck_none_iff args (n, f)).mpr ⟨n', ms, o, d, hfind, hrest⟩

/-- Under `hr` (every tensor referenced on the right has an input format of matching order — in particular
the target does not occur on the right) a consistent call never hits the defaults of `dimOf`: it reads
dimension `d` of the tensor actually supplied. -/
theorem dimOf_of_consistent (p : Problem) (args : List (String × Arg))
    (hr : ∀ r ∈ p.assign.refs, ∃ nf ∈ inputFormats p, nf.1 = r.name ∧ nf.2.order = r.idx.length)
    (hc : Consistent p args) (r : Ref) (hmem : r ∈ p.assign.refs) (d : Nat) (hd : d < r.idx.length) :
    ∃ ms o ds, (r.name, Arg.tensor ms o ds) ∈ args ∧ ∃ h : d < ds.length, dimOf args r.name d = ds[d] := by
  obtain ⟨hnd, _, hfm, _⟩ := hc
  obtain ⟨⟨n, f⟩, hf, hname, hord⟩ := hr r hmem
  simp only at hname hord
  subst hname
  obtain ⟨ms, o, ds, hin, hlen, _, _⟩ := hfm _ f hf
  have hd' : d < ds.length := by omega
  refine ⟨ms, o, ds, hin, hd', ?_⟩
  obtain ⟨n', hfind⟩ := (find?_key_eq_some_iff hnd r.name _).mpr hin
  simp [dimOf, hfind, argDims, hd']

/-- When the kernel is entered, the output has one dimension per target index, and each of them equals the
shared size of its index (`hb`: `__init__` accepted the problem, so every target index does occur on the
right — third conjunct — and the second conjunct is never vacuous). -/
theorem callCheck_dims (p : Problem) (args : List (String × Arg)) (dims : List Nat)
    (hb : initCheck p = none) (h : callCheck p args = .ok dims) :
    dims.length = p.assign.tidx.length ∧
    (∀ k (hk : k < dims.length), ∀ r ∈ p.assign.refs, ∀ d, d < r.idx.length →
      r.idx[d]! = p.assign.tidx[k]! → dimOf args r.name d = dims[k]) ∧
    (∀ k, k < dims.length → ∃ r ∈ p.assign.refs, ∃ d, d < r.idx.length ∧ r.idx[d]! = p.assign.tidx[k]!) := by
  rw [callCheck_eq] at h
  split at h
  · cases h
  split at h
  · cases h
  split at h
  · rename_i hs
    cases h
    have hlen : (outDims p.assign args).length = p.assign.tidx.length := by simp [outDims]
    refine ⟨hlen, ?_, ?_⟩
    · intro k hk r hr d hd he
      have hk' : k < p.assign.tidx.length := hlen ▸ hk
      have hall := (sizesOk_iff_forall _ _).mp hs (p.assign.tidx[k]!)
      have hm : dimOf args r.name d ∈ participantSizes p.assign args (p.assign.tidx[k]!) :=
        (mem_participantSizes _ _ _ _).mpr ⟨r, hr, d, hd, he, rfl⟩
      have := allEq_headD hall hm
      simp only [outDims, List.getElem_map]
      rw [← this, getElem!_pos p.assign.tidx k hk']
    · intro k hk
      have hk' : k < p.assign.tidx.length := hlen ▸ hk
      simp only [initCheck] at hb
      split at hb
      · rename_i hall
        have := List.all_eq_true.mp hall (p.assign.tidx[k]) (List.getElem_mem hk')
        have hin : p.assign.tidx[k] ∈ p.assign.refs.flatMap (·.idx) := by simpa using this
        obtain ⟨r, hr, hri⟩ := List.mem_flatMap.mp hin
        obtain ⟨d, hd, he⟩ := List.getElem_of_mem hri
        exact ⟨r, hr, d, hd, by rw [getElem!_pos r.idx d hd, getElem!_pos p.assign.tidx k hk', he]⟩
      · cases hb
  · cases h

/-- a rejected call fails with `TypeError` or `ValueError` (never with the constructor's broadcast error) -/
theorem callCheck_err_kind (p : Problem) (args : List (String × Arg)) (e : CallErr)
    (h : callCheck p args = .error e) : e = .typeError ∨ e = .valueError := by
  rw [callCheck_eq] at h
  split at h
  · cases h; exact .inl rfl
  split at h
  · rename_i e' he
    cases h
    exact perParam_kind _ _ _ he
  split at h
  · cases h
  · cases h; exact .inr rfl

/-! ### examples: `y(i) = A(i,j) * x(j)` -/

def exProblem : Problem :=
  ⟨⟨"y", ["i"], [⟨"A", ["i", "j"]⟩, ⟨"x", ["j"]⟩]⟩,
   [("y", ⟨[.dense], [0]⟩), ("A", ⟨[.dense, .compressed], [0, 1]⟩), ("x", ⟨[.dense], [0]⟩)]⟩

/-- accepted: `A` is 3×4 in the declared format, `x` has 4 entries; the output has 3 -/
example : callCheck exProblem
    [("x", .tensor [.dense] [0] [4]), ("A", .tensor [.dense, .compressed] [0, 1] [3, 4])] = .ok [3] := by decide

/-- rejected: the `j` dimensions disagree -/
example : callCheck exProblem
    [("A", .tensor [.dense, .compressed] [0, 1] [3, 4]), ("x", .tensor [.dense] [0] [5])] = .error .valueError := by
  decide

/-- rejected: wrong format of `A` -/
example : callCheck exProblem
    [("A", .tensor [.dense, .dense] [0, 1] [3, 4]), ("x", .tensor [.dense] [0] [4])] = .error .valueError := by decide

/-- rejected: a parameter is missing / is not a tensor / is supplied twice -/
example : callCheck exProblem [("A", .tensor [.dense, .compressed] [0, 1] [3, 4])] = .error .typeError := by decide
example : callCheck exProblem
    [("A", .tensor [.dense, .compressed] [0, 1] [3, 4]), ("x", .other)] = .error .typeError := by decide
example : callCheck exProblem
    [("A", .tensor [.dense, .compressed] [0, 1] [3, 4]), ("A", .tensor [.dense, .compressed] [0, 1] [3, 4])]
      = .error .typeError := by decide

/-- the well-formedness hypotheses hold for the example -/
example : ((inputFormats exProblem).map (·.1)).Nodup := by decide
example : ∀ r ∈ exProblem.assign.refs,
    ∃ nf ∈ inputFormats exProblem, nf.1 = r.name ∧ nf.2.order = r.idx.length := by decide

end TV.Api
