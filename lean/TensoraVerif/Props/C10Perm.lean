import TensoraVerif.Props.C10

/-!
C10 — the decision to enter the kernel does not depend on the order in which the keyword arguments are
written (`f(b=x, c=y)` vs `f(c=y, b=x)`): corollary of `callCheck_ok_iff`.
-/
namespace TV.Api

/-- with distinct keys the first-match look-up is the same in every permutation of the arguments -/
theorem find?_key_perm_c10 {β : Type} {l l' : List (String × β)} (h : l.Perm l')
    (hn : (l.map (·.1)).Nodup) (n : String) :
    (l.find? (·.1 == n)).map (·.2) = (l'.find? (·.1 == n)).map (·.2) := by
  have hn' : (l'.map (·.1)).Nodup := (h.map (·.1)).nodup_iff.mp hn
  cases h1 : l.find? (·.1 == n) with
  | some x =>
    obtain ⟨n1, v⟩ := x
    have hk : n1 = n := by
      have := List.find?_some h1
      simpa using this
    subst hk
    have hmem : (n1, v) ∈ l' := h.mem_iff.mp ((find?_key_eq_some_iff hn n1 v).mp ⟨n1, h1⟩)
    obtain ⟨n', h2⟩ := (find?_key_eq_some_iff hn' n1 v).mpr hmem
    simp [h2]
  | none =>
    cases h2 : l'.find? (·.1 == n) with
    | none => rfl
    | some y =>
      obtain ⟨n2, w⟩ := y
      have hk : n2 = n := by
        have := List.find?_some h2
        simpa using this
      subst hk
      have hmem : (n2, w) ∈ l := h.mem_iff.mpr ((find?_key_eq_some_iff hn' n2 w).mp ⟨n2, h2⟩)
      obtain ⟨n', h3⟩ := (find?_key_eq_some_iff hn n2 w).mpr hmem
      rw [h1] at h3
      cases h3

theorem dimOf_perm_c10 {args args' : List (String × Arg)} (h : args.Perm args')
    (hn : (args.map (·.1)).Nodup) (n : String) (d : Nat) : dimOf args n d = dimOf args' n d := by
  have := find?_key_perm_c10 h hn n
  unfold dimOf
  cases h1 : args.find? (·.1 == n) <;> cases h2 : args'.find? (·.1 == n) <;>
    simp_all

theorem Consistent_perm (p : Problem) {args args' : List (String × Arg)} (h : args.Perm args')
    (hc : Consistent p args) : Consistent p args' := by
  obtain ⟨hnd, hn, hfm, hs⟩ := hc
  have hmap := h.map (·.1)
  refine ⟨hmap.nodup_iff.mp hnd, fun n => by rw [← hn n]; exact hmap.mem_iff.symm, ?_, ?_⟩
  · intro n f hnf
    obtain ⟨ms, o, d, hmem, hrest⟩ := hfm n f hnf
    exact ⟨ms, o, d, h.mem_iff.mp hmem, hrest⟩
  · intro r₁ h₁ r₂ h₂ d₁ d₂ hd₁ hd₂ he
    rw [← dimOf_perm_c10 h hnd, ← dimOf_perm_c10 h hnd]
    exact hs r₁ h₁ r₂ h₂ d₁ d₂ hd₁ hd₂ he

/-- C10 corollary: whether the kernel is entered is independent of the order of the keyword arguments -/
theorem callCheck_ok_perm (p : Problem) {args args' : List (String × Arg)} (h : args.Perm args')
    (hf : ((inputFormats p).map (·.1)).Nodup) :
    (∃ dims, callCheck p args = .ok dims) ↔ (∃ dims, callCheck p args' = .ok dims) := by
  rw [callCheck_ok_iff p args hf, callCheck_ok_iff p args' hf]
  exact ⟨Consistent_perm p h, Consistent_perm p h.symm⟩

end TV.Api
