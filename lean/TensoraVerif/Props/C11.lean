import TensoraVerif.Lemmas.ApiSynth

/-!
C11 — the assignments synthesised for the overloaded operators (`binarySynth`, `matmulSynth`,
`Model/Api.lean`; ports of `evaluate_binary_operator` / `evaluate_matrix_multiplication_operator`) mean, under
the specification `Alg.denote` of the assignment language, element-wise arithmetic and the matrix product;
and the output format is the one announced.

`inputs : name → coordinate → Rat` gives the operand values (`"left"`, `"right"`; a Python number is the
order-0 tensor read at `[]`), `sizes : index → Nat` the extent of every index variable.
`idxNames n = ["i0", …]` is proved duplicate-free outright (`idxNames_nodup`, via injectivity of `Nat.repr`),
so no hypothesis about the generated names is needed.
-/
namespace TV.Api
open TV.Alg

/-! ### element-wise operators: meaning -/

/-- tensor ∘ tensor (equal dimensions): the element-wise operation -/
theorem binarySynth_tt_meaning (fl fr : Fmt) (d : List Nat) (op : Op) (a : Alg.Assign) (f : Fmt)
    (h : binarySynth (.tensor fl d) (.tensor fr d) op = .ok (a, f)) (inputs : Inputs) (sizes : Sizes)
    (c : List Nat) (hc : c.length = fl.order) :
    Alg.denote a inputs sizes c = opVal op (inputs "left" c) (inputs "right" c) := by
  simp only [binarySynth, bne_self_eq_false, Bool.false_eq_true, if_false, Except.ok.injEq,
    Prod.mk.injEq] at h
  obtain ⟨rfl, _⟩ := h
  rw [denote_binary_closed op _ _ _ inputs sizes c (fun _ h => h) (fun _ h => h),
    map_get_zip _ c (idxNames_nodup _) (by rw [idxNames_length, hc])]

/-- tensor ∘ number -/
theorem binarySynth_ts_meaning (fl : Fmt) (d : List Nat) (op : Op) (a : Alg.Assign) (f : Fmt)
    (h : binarySynth (.tensor fl d) .scalar op = .ok (a, f)) (inputs : Inputs) (sizes : Sizes)
    (c : List Nat) (hc : c.length = fl.order) :
    Alg.denote a inputs sizes c = opVal op (inputs "left" c) (inputs "right" []) := by
  simp only [binarySynth, Except.ok.injEq, Prod.mk.injEq] at h
  obtain ⟨rfl, _⟩ := h
  rw [denote_binary_closed op _ _ _ inputs sizes c (fun _ h => h) (fun _ h => by cases h),
    map_get_zip _ c (idxNames_nodup _) (by rw [idxNames_length, hc])]
  rfl

/-- number ∘ tensor -/
theorem binarySynth_st_meaning (fr : Fmt) (d : List Nat) (op : Op) (a : Alg.Assign) (f : Fmt)
    (h : binarySynth .scalar (.tensor fr d) op = .ok (a, f)) (inputs : Inputs) (sizes : Sizes)
    (c : List Nat) (hc : c.length = fr.order) :
    Alg.denote a inputs sizes c = opVal op (inputs "left" []) (inputs "right" c) := by
  simp only [binarySynth, Except.ok.injEq, Prod.mk.injEq] at h
  obtain ⟨rfl, _⟩ := h
  rw [denote_binary_closed op _ _ _ inputs sizes c (fun _ h => by cases h) (fun _ h => h),
    map_get_zip _ c (idxNames_nodup _) (by rw [idxNames_length, hc])]
  rfl

/-! ### element-wise operators: when they are rejected -/

theorem binarySynth_error_iff (l r : Operand) (op : Op) (e : OpErr) :
    binarySynth l r op = .error e ↔
      (∃ fl dl fr dr, l = .tensor fl dl ∧ r = .tensor fr dr ∧ dl ≠ dr ∧ e = .valueError) ∨
      (l = .scalar ∧ r = .scalar ∧ e = .notImplemented) := by
  cases l with
  | tensor fl dl =>
    cases r with
    | tensor fr dr =>
      by_cases hd : dl = dr
      · subst hd; simp [binarySynth]
      · simp only [binarySynth, bne_iff_ne, ne_eq, hd, not_false_eq_true, if_true, Except.error.injEq,
          Operand.tensor.injEq, reduceCtorEq, false_and, or_false]
        constructor
        · rintro rfl; exact ⟨fl, dl, fr, dr, ⟨rfl, rfl⟩, ⟨rfl, rfl⟩, hd, rfl⟩
        · rintro ⟨_, _, _, _, _, _, _, rfl⟩; rfl
    | scalar => simp [binarySynth]
  | scalar =>
    cases r with
    | tensor fr dr => simp [binarySynth]
    | scalar =>
      simp only [binarySynth, Except.error.injEq, reduceCtorEq, false_and, exists_false, and_false, true_and,
        false_or]
      exact eq_comm

/-- rejected exactly for two tensors of different dimensions and for two numbers -/
theorem binarySynth_shape (l r : Operand) (op : Op) :
    (∃ e, binarySynth l r op = .error e) ↔
      (∃ fl dl fr dr, l = .tensor fl dl ∧ r = .tensor fr dr ∧ dl ≠ dr) ∨ (l = .scalar ∧ r = .scalar) := by
  simp only [binarySynth_error_iff]
  constructor
  · rintro ⟨e, h | h⟩
    · obtain ⟨fl, dl, fr, dr, h1, h2, h3, _⟩ := h
      exact .inl ⟨fl, dl, fr, dr, h1, h2, h3⟩
    · exact .inr ⟨h.1, h.2.1⟩
  · rintro (⟨fl, dl, fr, dr, h1, h2, h3⟩ | ⟨h1, h2⟩)
    · exact ⟨_, .inl ⟨fl, dl, fr, dr, h1, h2, h3, rfl⟩⟩
    · exact ⟨_, .inr ⟨h1, h2, rfl⟩⟩

/-! ### element-wise operators: output format -/

/-- level by level (no assumption on the operands' orderings — the code does not look at them): the output has
the natural ordering, and level `k` is dense iff both operands' levels `k` are (`mul`), resp. iff one of them
is (`add`, `sub`) -/
theorem binarySynth_tt_format (fl fr : Fmt) (d : List Nat) (op : Op) (a : Alg.Assign) (f : Fmt)
    (h : binarySynth (.tensor fl d) (.tensor fr d) op = .ok (a, f)) (ho : fl.order = fr.order) :
    f.order = fl.order ∧ f.Natural ∧
    ∀ k (hk : k < f.modes.length) (hl : k < fl.modes.length) (hr : k < fr.modes.length),
      (op = .mul → (f.modes[k] = .dense ↔ fl.modes[k] = .dense ∧ fr.modes[k] = .dense)) ∧
      (op ≠ .mul → (f.modes[k] = .dense ↔ fl.modes[k] = .dense ∨ fr.modes[k] = .dense)) := by
  simp only [binarySynth, bne_self_eq_false, Bool.false_eq_true, if_false, Except.ok.injEq,
    Prod.mk.injEq] at h
  obtain ⟨_, rfl⟩ := h
  simp only [Fmt.order] at ho
  refine ⟨?_, ?_, ?_⟩
  · cases op <;> simp [Fmt.order, zipModes_length, ho]
  · simp [Fmt.Natural, Fmt.order]
  · intro k hk hl hr
    cases op <;>
      simp only [reduceCtorEq, ne_eq, not_true_eq_false, not_false_eq_true, false_implies, true_implies,
        and_true, true_and] <;>
      rw [zipModes_getElem _ _ _ _ _ hl hr] <;>
      split <;> simp_all

/-- for operands in natural ordering (level = dimension): the output is in natural ordering, dimension `k` is
dense iff it is dense in both operands (`mul`), resp. in one of them (`add`, `sub`) -/
theorem binarySynth_format_natural (fl fr : Fmt) (d : List Nat) (op : Op) (a : Alg.Assign) (f : Fmt)
    (h : binarySynth (.tensor fl d) (.tensor fr d) op = .ok (a, f))
    (hl : fl.Natural) (hr : fr.Natural) (ho : fl.order = fr.order) :
    f.order = fl.order ∧ f.Natural ∧
    ∀ k, k < fl.order →
      (op = .mul → (f.modeOfDim k = .dense ↔ fl.modeOfDim k = .dense ∧ fr.modeOfDim k = .dense)) ∧
      (op ≠ .mul → (f.modeOfDim k = .dense ↔ fl.modeOfDim k = .dense ∨ fr.modeOfDim k = .dense)) := by
  obtain ⟨h1, h2, h3⟩ := binarySynth_tt_format fl fr d op a f h ho
  refine ⟨h1, h2, fun k hk => ?_⟩
  rw [f.modeOfDim_natural h2 k (h1 ▸ hk), fl.modeOfDim_natural hl k hk, fr.modeOfDim_natural hr k (ho ▸ hk)]
  exact h3 k _ _ _

/-- with a number: the operand's format for `mul`, all dense (natural ordering) for `add`/`sub` -/
theorem binarySynth_ts_format (fl : Fmt) (d : List Nat) (op : Op) (a : Alg.Assign) (f : Fmt)
    (h : binarySynth (.tensor fl d) .scalar op = .ok (a, f)) :
    (op = .mul → f = fl) ∧ (op ≠ .mul → f = Fmt.allDense fl.order) := by
  simp only [binarySynth, Except.ok.injEq, Prod.mk.injEq] at h
  obtain ⟨_, rfl⟩ := h
  cases op <;> simp

theorem binarySynth_st_format (fr : Fmt) (d : List Nat) (op : Op) (a : Alg.Assign) (f : Fmt)
    (h : binarySynth .scalar (.tensor fr d) op = .ok (a, f)) :
    (op = .mul → f = fr) ∧ (op ≠ .mul → f = Fmt.allDense fr.order) := by
  simp only [binarySynth, Except.ok.injEq, Prod.mk.injEq] at h
  obtain ⟨_, rfl⟩ := h
  cases op <;> simp

/-! ### `@`: meaning -/

/-- matrix @ matrix -/
theorem matmulSynth_mm_meaning (fl fr : Fmt) (m k n : Nat) (a : Alg.Assign) (f : Fmt)
    (h : matmulSynth fl [m, k] fr [k, n] = .ok (a, f)) (inputs : Inputs) (sizes : Sizes) (i j : Nat) :
    Alg.denote a inputs sizes [i, j] =
      Alg.sumRange (sizes "j") fun t => inputs "left" [i, t] * inputs "right" [t, j] := by
  simp only [matmulSynth, bne_self_eq_false, Bool.false_eq_true, if_false, Except.ok.injEq,
    Prod.mk.injEq] at h
  obtain ⟨rfl, _⟩ := h
  simp [denote, termsOf, Term.mul, Term.indexes, dedup, sumOver, Term.val, Env.get, Env.set, Rat.zero_add]

/-- vector @ vector: the dot product -/
theorem matmulSynth_vv_meaning (fl fr : Fmt) (k : Nat) (a : Alg.Assign) (f : Fmt)
    (h : matmulSynth fl [k] fr [k] = .ok (a, f)) (inputs : Inputs) (sizes : Sizes) :
    Alg.denote a inputs sizes [] = Alg.sumRange (sizes "i") fun t => inputs "left" [t] * inputs "right" [t] := by
  simp only [matmulSynth, bne_self_eq_false, Bool.false_eq_true, if_false, Except.ok.injEq,
    Prod.mk.injEq] at h
  obtain ⟨rfl, _⟩ := h
  simp [denote, termsOf, Term.mul, Term.indexes, dedup, sumOver, Term.val, Env.get, Env.set, Rat.zero_add]

/-- matrix @ vector -/
theorem matmulSynth_mv_meaning (fl fr : Fmt) (m k : Nat) (a : Alg.Assign) (f : Fmt)
    (h : matmulSynth fl [m, k] fr [k] = .ok (a, f)) (inputs : Inputs) (sizes : Sizes) (i : Nat) :
    Alg.denote a inputs sizes [i] =
      Alg.sumRange (sizes "j") fun t => inputs "left" [i, t] * inputs "right" [t] := by
  simp only [matmulSynth, bne_self_eq_false, Bool.false_eq_true, if_false, Except.ok.injEq,
    Prod.mk.injEq] at h
  obtain ⟨rfl, _⟩ := h
  simp [denote, termsOf, Term.mul, Term.indexes, dedup, sumOver, Term.val, Env.get, Env.set, Rat.zero_add]

/-- vector @ matrix -/
theorem matmulSynth_vm_meaning (fl fr : Fmt) (k n : Nat) (a : Alg.Assign) (f : Fmt)
    (h : matmulSynth fl [k] fr [k, n] = .ok (a, f)) (inputs : Inputs) (sizes : Sizes) (j : Nat) :
    Alg.denote a inputs sizes [j] =
      Alg.sumRange (sizes "i") fun t => inputs "left" [t] * inputs "right" [t, j] := by
  simp only [matmulSynth, bne_self_eq_false, Bool.false_eq_true, if_false, Except.ok.injEq,
    Prod.mk.injEq] at h
  obtain ⟨rfl, _⟩ := h
  simp [denote, termsOf, Term.mul, Term.indexes, dedup, sumOver, Term.val, Env.get, Env.set, Rat.zero_add]

/-- `@` is accepted exactly for operands of one or two dimensions whose inner dimensions agree -/
theorem matmulSynth_ok_iff (fl fr : Fmt) (dl dr : List Nat) :
    (∃ r, matmulSynth fl dl fr dr = .ok r) ↔
      (dl.length = 1 ∨ dl.length = 2) ∧ (dr.length = 1 ∨ dr.length = 2) ∧ dl.getLast? = dr.head? := by
  rcases dl with _ | ⟨a, _ | ⟨b, _ | ⟨c, t⟩⟩⟩ <;> rcases dr with _ | ⟨a', _ | ⟨b', _ | ⟨c', t'⟩⟩⟩ <;>
    simp [matmulSynth] <;> split <;> simp_all

/-- the output format of matrix @ matrix, for operand orderings that are permutations of the two dimensions:
natural ordering, rows as the left operand stores its rows, columns as the right operand stores its columns
(`modeAsCode` reads `modes[ordering[d]]` where `modes[ordering.index(d)]` is meant — the same thing for a
permutation of two elements) -/
theorem matmulSynth_mm_format (fl fr : Fmt) (m k n : Nat) (a : Alg.Assign) (f : Fmt)
    (h : matmulSynth fl [m, k] fr [k, n] = .ok (a, f))
    (hl : fl.ordering = [0, 1] ∨ fl.ordering = [1, 0]) (hr : fr.ordering = [0, 1] ∨ fr.ordering = [1, 0]) :
    f.Natural ∧ f.modeOfDim 0 = fl.modeOfDim 0 ∧ f.modeOfDim 1 = fr.modeOfDim 1 := by
  simp only [matmulSynth, bne_self_eq_false, Bool.false_eq_true, if_false, Except.ok.injEq,
    Prod.mk.injEq] at h
  obtain ⟨_, rfl⟩ := h
  rcases hl with hl | hl <;> rcases hr with hr | hr <;>
    simp [Fmt.Natural, Fmt.order, Fmt.modeOfDim, modeAsCode, hl, hr, List.idxOf_cons, List.range_succ]

/-! ### examples -/

example : idxNames 3 = ["i0", "i1", "i2"] := by decide
example : (idxNames 8).Nodup := by decide

example : binarySynth (.tensor ⟨[.dense, .compressed], [0, 1]⟩ [3, 4]) (.tensor ⟨[.compressed, .compressed], [0, 1]⟩ [3, 4]) .add
    = .ok (⟨"output", ["i0", "i1"], .add (.tensor "left" ["i0", "i1"]) (.tensor "right" ["i0", "i1"])⟩,
        ⟨[.dense, .compressed], [0, 1]⟩) := by decide

example : binarySynth (.tensor ⟨[.dense, .compressed], [0, 1]⟩ [3, 4]) (.tensor ⟨[.compressed, .compressed], [0, 1]⟩ [3, 4]) .mul
    = .ok (⟨"output", ["i0", "i1"], .mul (.tensor "left" ["i0", "i1"]) (.tensor "right" ["i0", "i1"])⟩,
        ⟨[.compressed, .compressed], [0, 1]⟩) := by decide

example : binarySynth (.tensor ⟨[.dense], [0]⟩ [3]) (.tensor ⟨[.dense], [0]⟩ [4]) .add = .error .valueError := by decide
example : binarySynth .scalar .scalar .mul = .error .notImplemented := by decide

end TV.Api
