import TensoraVerif.Lemmas.ParserRoundTrip
import TensoraVerif.Lemmas.ParserGrammar
import TensoraVerif.Lemmas.ParserLex
import TensoraVerif.Lemmas.ParserValidate
import TensoraVerif.Lemmas.ParserFormat

/-!
C12 — the assignment and format languages (`Model/Parser.lean`).

* the parser implements the textbook grammar (`DerivesE`: `*` binds tighter than `+`/`-`, operators of equal
  precedence associate to the left, parentheses override): sound, complete with the fuel of
  `parseAssignment`, and the grammar is unambiguous;
* `deparse` then `parse` is the identity on valid, well-spelled assignments (token level: `parseExpr_toks`;
  character level: `lex_render`; together: `parse_deparse`);
* `validate` rejects exactly the three documented conditions;
* formats: `deparse` then `parse` is the identity, and every parsed format has a valid mode ordering.

Fuel. The parser functions of the model take a fuel argument. General fuel monotonicity is FALSE in the model
(`parseTermRest_fuel_not_monotone` below: exhaustion inside `parseFactor` looks like "no factor follows", so too
little fuel gives a *shorter* parse instead of `none`), so every statement below is of the form "for every fuel
≥ a bound the result is …". `needE e` is the exact requirement of `parseExpr` on the print of `e`; it is at most
`3 * e.toks.length`, and `3 * ts.length` suffices for every grammatical token sequence `ts` — which is why
`parseAssignment` runs with fuel `3 * ts.length + 3` (the earlier `ts.length + 1` was too small:
`a()=((((1))))` needs fuel 15 for the right-hand side but had 14).
-/
namespace TV.Parse

/-! ### G1: token level — printing then parsing gives the tree back -/

/-- for every expression tree, the parser applied to the printed token sequence followed by any continuation
that cannot extend the expression (`Stops`: empty, or not starting with `*`, `+`, `-`; inside parentheses it
starts with `)`) returns exactly the tree and leaves the continuation -/
theorem parseExpr_toks (e : PExpr) (rest : List Tok) (fuel : Nat)
    (hrest : Stops rest) (hfuel : 3 * e.toks.length ≤ fuel) :
    parseExpr fuel (e.toks ++ rest) = some (e, rest) :=
  parseExpr_toks_fuel e rest fuel hrest hfuel

/-- the same with the tree's own fuel requirement `needE e` (= the third-level component of `needs e`, computed
by recursion on the tree; `#eval` shows it is the least fuel for which the tree comes back) -/
theorem parseExpr_toks_exact (e : PExpr) (rest : List Tok) (fuel : Nat)
    (hrest : Stops rest) (hfuel : needE e ≤ fuel) : parseExpr fuel (e.toks ++ rest) = some (e, rest) :=
  parseExpr_toks_need e rest fuel hrest hfuel

theorem needE_le (e : PExpr) : needE e ≤ 3 * e.toks.length := (needs_le e).1

/-- term level: the print of `e` as an operand of `+`/`-` (parenthesised when it is a sum/difference), followed
by anything but `*` -/
theorem parseTerm_toks (e : PExpr) (rest : List Tok) (fuel : Nat)
    (hrest : noStar rest) (hfuel : 3 * (termToks e).length ≤ fuel) :
    parseTerm fuel (termToks e ++ rest) = some (e, rest) :=
  parseTerm_termToks e rest fuel hrest hfuel

/-- factor level: the print of `e` as right operand of `*` (parenthesised unless atomic), any continuation -/
theorem parseFactor_toks (e : PExpr) (rest : List Tok) (fuel : Nat)
    (hfuel : 3 * (factorToks e).length ≤ fuel) : parseFactor fuel (factorToks e ++ rest) = some (e, rest) :=
  parseFactor_factorToks e rest fuel hfuel

/-- how the left-nested product spine is rebuilt: after the accumulator `acc`, `* f` extends it to `acc * f` -/
theorem parseTermRest_step (acc f : PExpr) (rest : List Tok) (fuel : Nat)
    (hfuel : 3 * (factorToks f).length ≤ fuel) :
    parseTermRest (fuel + 1) acc (.star :: factorToks f ++ rest) = parseTermRest fuel (.mul acc f) rest :=
  parseTermRest_star fuel acc f _ rest (parseFactor_factorToks f rest fuel hfuel)

/-- … and the sum spine -/
theorem parseExprRest_step (acc t : PExpr) (rest : List Tok) (fuel : Nat) (hrest : noStar rest)
    (hfuel : 3 * (termToks t).length ≤ fuel) :
    parseExprRest (fuel + 1) acc (.plus :: termToks t ++ rest) = parseExprRest fuel (.add acc t) rest ∧
    parseExprRest (fuel + 1) acc (.minus :: termToks t ++ rest) = parseExprRest fuel (.sub acc t) rest :=
  ⟨parseExprRest_plus fuel acc t _ rest (parseTerm_termToks t rest fuel hrest hfuel),
   parseExprRest_minus fuel acc t _ rest (parseTerm_termToks t rest fuel hrest hfuel)⟩

/-- the index list of a tensor is read back whatever the names are -/
theorem parseIndexes_toks (idx : List String) (rest : List Tok) :
    parseIndexes (idxToks idx ++ .rpar :: rest) = some (idx, rest) := parseIndexes_idxToks idx rest

/-- fuel monotonicity fails in the model: one more unit of fuel changes a `some` result -/
theorem parseTermRest_fuel_not_monotone :
    parseTermRest 1 (.int "1") [.star, .int "2"] = some (.int "1", [.star, .int "2"]) ∧
    parseTermRest 2 (.int "1") [.star, .int "2"] = some (.mul (.int "1") (.int "2"), []) := by decide

/-! ### G4: the parser implements the grammar -/

/-- soundness: whatever `parseExpr` returns (with any fuel) is a derivation of the consumed prefix -/
theorem parseExpr_sound (fuel : Nat) (ts : List Tok) (e : PExpr) (rest : List Tok)
    (h : parseExpr fuel ts = some (e, rest)) : ∃ used, ts = used ++ rest ∧ DerivesE used e :=
  (soundAt fuel).expr ts e rest h

theorem parseTerm_sound (fuel : Nat) (ts : List Tok) (e : PExpr) (rest : List Tok)
    (h : parseTerm fuel ts = some (e, rest)) : ∃ used, ts = used ++ rest ∧ DerivesT used e :=
  (soundAt fuel).term ts e rest h

theorem parseFactor_sound (fuel : Nat) (ts : List Tok) (e : PExpr) (rest : List Tok)
    (h : parseFactor fuel ts = some (e, rest)) : ∃ used, ts = used ++ rest ∧ DerivesF used e :=
  (soundAt fuel).factor ts e rest h

/-- completeness: every derivation is found, with fuel three times the number of tokens, before any
continuation that cannot extend the expression -/
theorem parseExpr_complete (ts : List Tok) (e : PExpr) (d : DerivesE ts e) (rest : List Tok) (fuel : Nat)
    (hrest : Stops rest) (hfuel : 3 * ts.length ≤ fuel) : parseExpr fuel (ts ++ rest) = some (e, rest) :=
  (cplE_of_derives d).full fuel rest hrest hfuel

/-- the grammar is unambiguous -/
theorem derives_unique (ts : List Tok) (e e' : PExpr) (d : DerivesE ts e) (d' : DerivesE ts e') : e = e' :=
  d.unique d'

/-- the printer prints a derivation of the tree, at each of the three levels -/
theorem toks_derives (e : PExpr) :
    DerivesE e.toks e ∧ DerivesT (termToks e) e ∧ DerivesF (factorToks e) e := derives_toks e

/-- `parseAssignment` accepts exactly: completely lexed `name(idx,…) = E` with `E` grammatical and the
assignment valid -/
theorem parseAssignment_ok_iff (s : String) (a : PAssign) :
    parseAssignment s = .ok a ↔
      ∃ used, lex s = (tensorToks a.tname a.tidx ++ .eq :: used, true) ∧ DerivesE used a.rhs ∧
        validate a = none := by
  constructor
  · exact parseAssignment_ok_sound s a
  · rintro ⟨used, hlex, d, hv⟩
    have := parseAssignment_of_derives s a.tname a.tidx used a.rhs hlex d
    rw [show (⟨a.tname, a.tidx, a.rhs⟩ : PAssign) = a from rfl, hv] at this
    exact this

/-! ### G2: character level — lexing the rendered text gives the tokens back -/

/-- `renderable ts`: every name matches `[A-Za-z][A-Za-z0-9]*`, every integer lexeme `[0-9]+`, every float
lexeme the float regular expression (`isFloatLexeme`), and no two word tokens (name/int/float) are adjacent -/
theorem lex_render (ts : List Tok) (h : renderable ts) :
    lexAux (render ts).length.succ (render ts) = (ts, true) :=
  lexAux_render ts h _ (Nat.lt_succ_self _)

theorem lex_render_string (ts : List Tok) (h : renderable ts) : lex (String.ofList (render ts)) = (ts, true) :=
  lex_render_ofList ts h

/-- the printed tokens of a well-spelled assignment are renderable -/
theorem toks_renderable (a : PAssign) (h : a.wellSpelled) : renderable a.toks := renderable_assignToks a h

theorem lexNumber_float (cs rest : List Char) (h : isFloatLexeme cs)
    (hr : ∀ c ∈ rest.head?, isStopChar c = true) :
    lexNumber (cs ++ rest) = some (.flt (String.ofList cs), rest) := lexNumber_flt cs rest h hr

/-! ### G3: the assignment round trip -/

/-- deparse then parse is the identity on well-spelled valid assignments -/
theorem parse_deparse (a : PAssign) (hs : a.wellSpelled) (hv : validate a = none) :
    parseAssignment a.deparse = .ok a := by
  have := parseAssignment_of_lex a a.deparse (lex_deparse a hs)
  rwa [hv] at this

/-- and on an invalid one the parser reports the validation error of that very tree -/
theorem parse_deparse_invalid (a : PAssign) (hs : a.wellSpelled) (err : ParseErr) (hv : validate a = some err) :
    parseAssignment a.deparse = .error err := by
  have := parseAssignment_of_lex a a.deparse (lex_deparse a hs)
  rwa [hv] at this

/-! ### G5: validation is exactly the three documented conditions -/

theorem validate_none_iff (a : PAssign) :
    validate a = none ↔
      (a.tname ∉ (tensorsOf a.rhs).map (·.1)) ∧
      (∀ t₁ ∈ tensorsOf a.rhs, ∀ t₂ ∈ tensorsOf a.rhs, t₁.1 = t₂.1 → t₁.2.length = t₂.2.length) ∧
      (∀ i ∈ a.tidx ++ (tensorsOf a.rhs).flatMap (·.2), i ≠ a.tname ∧ i ∉ (tensorsOf a.rhs).map (·.1)) :=
  validate_none_iff_lem a

theorem validate_mutating_of (a : PAssign) (h : validate a = some .mutating) :
    a.tname ∈ (tensorsOf a.rhs).map (·.1) := validate_mutating_of_lem a h

theorem validate_inconsistent_of (a : PAssign) (h : validate a = some .inconsistentDimensions) :
    ∃ t₁ ∈ tensorsOf a.rhs, ∃ t₂ ∈ tensorsOf a.rhs, t₁.1 = t₂.1 ∧ t₁.2.length ≠ t₂.2.length :=
  validate_inconsistent_of_lem a h

theorem validate_nameConflict_of (a : PAssign) (h : validate a = some .nameConflict) :
    ∃ i ∈ a.tidx ++ (tensorsOf a.rhs).flatMap (·.2), i = a.tname ∨ i ∈ (tensorsOf a.rhs).map (·.1) :=
  validate_nameConflict_of_lem a h

theorem validate_ne_syntax (a : PAssign) : validate a ≠ some .syntax := validate_ne_syntax_lem a

/-! ### G6: formats -/

theorem format_roundtrip (f : Format) (hl : f.ordering.length = f.modes.length)
    (hp : validPerm f.ordering f.modes.length = true) : parseFormat f.deparse = .ok f :=
  format_roundtrip_lem f hl hp

theorem parseFormat_ok_perm (s : String) (f : Format) (h : parseFormat s = .ok f) :
    f.ordering.length = f.modes.length ∧ validPerm f.ordering f.modes.length = true :=
  parseFormat_ok_perm_lem s f h

/-! ### examples -/

/-- `a(i) = (b(i,j) + 2.5) * c(j) - (d(i) - 1e3)` -/
def exA : PAssign :=
  ⟨"a", ["i"], .sub (.mul (.add (.tensor "b" ["i", "j"]) (.flt "2.5")) (.tensor "c" ["j"]))
    (.sub (.tensor "d" ["i"]) (.flt "1e3"))⟩

example : exA.deparse = "a(i) = (b(i,j) + 2.5) * c(j) - (d(i) - 1e3)" := by decide
example : parseAssignment exA.deparse = .ok exA := parse_deparse exA (by decide) (by decide)
example : parseAssignment "a(i) = (b(i,j) + 2.5) * c(j) - (d(i) - 1e3)" = .ok exA :=
  (show exA.deparse = "a(i) = (b(i,j) + 2.5) * c(j) - (d(i) - 1e3)" by decide) ▸
    parse_deparse exA (by decide) (by decide)
/-- the token level of the same example, by evaluation -/
example : parseExpr (needE exA.rhs) exA.rhs.toks = some (exA.rhs, []) := by decide
example : needE exA.rhs = 8 ∧ exA.rhs.toks.length = 24 := by decide

/-- precedence and associativity, by evaluation: lexer … -/
example : lex "a(i)=b(i)+c(i)*d(i)-e(i)" =
    ([.name "a", .lpar, .name "i", .rpar, .eq, .name "b", .lpar, .name "i", .rpar, .plus, .name "c", .lpar,
      .name "i", .rpar, .star, .name "d", .lpar, .name "i", .rpar, .minus, .name "e", .lpar, .name "i", .rpar],
     true) := by decide
/-- … then parser: `b + c * d - e` is `(b + (c * d)) - e` -/
example : parseAssignToks
    [.name "a", .lpar, .name "i", .rpar, .eq, .name "b", .lpar, .name "i", .rpar, .plus, .name "c", .lpar,
      .name "i", .rpar, .star, .name "d", .lpar, .name "i", .rpar, .minus, .name "e", .lpar, .name "i", .rpar]
    true =
    .ok ⟨"a", ["i"], .sub (.add (.tensor "b" ["i"]) (.mul (.tensor "c" ["i"]) (.tensor "d" ["i"])))
      (.tensor "e" ["i"])⟩ := by rfl
/-- `b - c - d` is `(b - c) - d`; `b * c * d` is `(b * c) * d`; parentheses override -/
example : parseExpr 20 [.int "1", .minus, .int "2", .minus, .int "3"] =
    some (.sub (.sub (.int "1") (.int "2")) (.int "3"), []) := by decide
example : parseExpr 20 [.int "1", .star, .int "2", .star, .int "3"] =
    some (.mul (.mul (.int "1") (.int "2")) (.int "3"), []) := by decide
example : parseExpr 20 [.int "1", .minus, .lpar, .int "2", .minus, .int "3", .rpar] =
    some (.sub (.int "1") (.sub (.int "2") (.int "3")), []) := by decide
/-- deep nesting: six parentheses need fuel 21 on 13 tokens (`ts.length + 1` would not do) -/
example : parseExpr 21 (parenToks (parenToks (parenToks (parenToks (parenToks (parenToks [.int "1"])))))) =
    some (.int "1", []) ∧
    parseExpr 20 (parenToks (parenToks (parenToks (parenToks (parenToks (parenToks [.int "1"])))))) = none := by
  decide
/-- what is not renderable does not round-trip: two adjacent names merge -/
example : renderable [.name "a", .name "b"] = false ∧
    lex (String.ofList (render [.name "a", .name "b"])) = ([.name "ab"], true) := by decide

/-- validation -/
example : validate ⟨"a", ["i"], .mul (.tensor "b" ["i", "j"]) (.tensor "c" ["j"])⟩ = none := by decide
example : validate ⟨"a", ["i"], .add (.tensor "a" ["i"]) (.tensor "b" ["i"])⟩ = some .mutating := by decide
example : validate ⟨"a", ["i"], .add (.tensor "b" ["i"]) (.tensor "b" ["i", "j"])⟩ =
    some .inconsistentDimensions := by decide
example : validate ⟨"a", ["i"], .tensor "b" ["a"]⟩ = some .nameConflict := by decide
/-- the first tensor name (in order of first occurrence) that fails a test decides the error -/
example : validate ⟨"a", ["i"], .mul (.mul (.tensor "b" ["i"]) (.tensor "b" ["i", "j"])) (.tensor "a" ["i"])⟩ =
    some .inconsistentDimensions := by decide

/-- formats -/
example : parseFormat "d1s0" = .ok ⟨[.dense, .compressed], [1, 0]⟩ := by rfl
example : parseFormat "ds" = .ok ⟨[.dense, .compressed], [0, 1]⟩ := by rfl
example : parseFormat "d1s1" = .error .invalidOrdering := by rfl
example : parseFormat "dx" = .error .syntax := by rfl
example : (Format.deparse ⟨[.dense, .compressed], [1, 0]⟩) = "d1s0" := by decide

end TV.Parse
