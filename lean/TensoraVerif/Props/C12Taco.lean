import TensoraVerif.Lemmas.TacoToks
import TensoraVerif.Lemmas.TacoMeaning
import TensoraVerif.Lemmas.TacoLex
import TensoraVerif.Lemmas.ParserGrammar

/-!
C12 (taco) — the second printer of the assignment language, `deparse_to_taco`
(src/tensora/generate/_deparse_to_taco.py; model: `Model/Taco.lean`).

Unlike `Assignment.deparse`, this printer does not reproduce the tree: it drops the parentheses around the right
operand of `+` and around a product on the right of `*`, so `a + (b - c)` is printed `a + b - c` and
`a * (b * c)` is printed `a * b * c`. What it must preserve is the *meaning*. The statements:

* T1 `tacoToks_regroup`: the taco text of `e` is, up to the spelling of scalars (`s` for `s()`), exactly what
  tensora's own printer prints for the regrouped tree `tacoRegroup e`; hence (T2, for trees without scalars, by
  the theorems of `Props/C12.lean`) the conventional grammar — and tensora's parser — read the taco text as
  `tacoRegroup e` and as nothing else;
* T3 `termsOf_tacoRegroup` / `denote_tacoRegroup`: `tacoRegroup e` has literally the same list of additive terms
  as `e` (same order, coefficients, factor lists), so the same `denote` for all inputs, sizes and coordinates;
  it also has the same tensors in the same order, so the same `validate` verdict; with the character level
  (`lex_deparseTaco`) this gives the end-to-end `parse_deparseTaco`: tensora's `parse_assignment` applied to
  `deparse_to_taco(a)` returns `a.tacoRegroup`;
* T4 `tacoRegroup_id_of_leftNested`: on trees whose `+` has no sum/difference and whose `*` has no product as
  right operand — in particular on everything tensora's parser produces from text without parentheses —
  regrouping is the identity (and conversely; `tacoRegroup` is idempotent);
* T5 `taco_old_defect`: before the repair, `Subtract` printed its right operand bare; the closed witness
  `a(i) - (b(i) - c(i))` was printed `a(i) - b(i) - c(i)`, which the grammar reads as `(a(i) - b(i)) - c(i)`,
  whose term list differs in the sign of `c`.
-/
namespace TV.Parse
open TV.Alg

/-! ### T1: the taco text is tensora's print of the regrouped tree, scalars respelled -/

/-- expression level -/
theorem tacoToks_regroup (e : PExpr) : e.tacoToks = unitParens (tacoRegroup e).toks := by
  rw [unitParens_toks, tacoToks_eq_toksU]

/-- assignment level (the target is a tensor like any other) -/
theorem tacoAssignToks_regroup (a : PAssign) : a.tacoToks = unitParens a.tacoRegroup.toks := by
  simp only [PAssign.tacoToks, PAssign.toks, PAssign.tacoRegroup, List.append_assoc, List.cons_append,
    List.nil_append]
  rw [unitParens_tensorToks, unitParens_cons _ _ (by intro n; simp), unitParens_toks, tacoToks_eq_toksU]

/-- the printed text, for reference: the rendering of the respelled tokens -/
theorem deparseTaco_regroup (a : PAssign) :
    a.deparseTaco = String.ofList (tacoRender (unitParens a.tacoRegroup.toks)) := by
  rw [PAssign.deparseTaco, tacoAssignToks_regroup]

/-- `unitParens` does nothing else than respell scalars: without scalars the taco tokens *are* tensora's tokens
of the regrouped tree -/
theorem tacoToks_eq_toks (e : PExpr) (h : noScalars e = true) : e.tacoToks = (tacoRegroup e).toks := by
  rw [tacoToks_eq_toksU, toksU_eq_toks _ (by rw [noScalars_tacoRegroup]; exact h)]

theorem tacoAssignToks_eq_toks (a : PAssign) (ht : a.tidx.isEmpty = false) (h : noScalars a.rhs = true) :
    a.tacoToks = a.tacoRegroup.toks := by
  simp only [PAssign.tacoToks, PAssign.toks, PAssign.tacoRegroup, tacoToks_eq_toks _ h,
    tacoTensorToks_eq _ _ ht]

/-! ### T2: how the conventional grammar reads the taco text -/

/-- the taco text of a tree without scalars derives the regrouped tree … -/
theorem tacoToks_derives (e : PExpr) (h : noScalars e = true) : DerivesE e.tacoToks (tacoRegroup e) := by
  rw [tacoToks_eq_toks e h]
  exact (derives_toks _).1

/-- … and no other tree (the grammar is unambiguous) -/
theorem tacoToks_derives_unique (e e' : PExpr) (h : noScalars e = true) (d : DerivesE e.tacoToks e') :
    e' = tacoRegroup e :=
  d.unique (tacoToks_derives e h)

/-- the parser form: tensora's parser applied to the taco tokens returns the regrouped tree -/
theorem parseExpr_tacoToks (e : PExpr) (h : noScalars e = true) (rest : List Tok) (fuel : Nat)
    (hrest : Stops rest = true) (hfuel : 3 * e.tacoToks.length ≤ fuel) :
    parseExpr fuel (e.tacoToks ++ rest) = some (tacoRegroup e, rest) := by
  rw [tacoToks_eq_toks e h] at hfuel ⊢
  exact parseExpr_toks_fuel _ rest fuel hrest hfuel

/-- assignment level: any text that lexes to the taco tokens is parsed by `parseAssignment` to the regrouped
assignment (or rejected with its validation error) -/
theorem parseAssignment_of_lex_taco (a : PAssign) (ht : a.tidx.isEmpty = false) (h : noScalars a.rhs = true)
    (s : String) (hlex : lex s = (a.tacoToks, true)) :
    parseAssignment s = match validate a.tacoRegroup with
      | some err => .error err
      | none => .ok a.tacoRegroup :=
  parseAssignment_of_lex a.tacoRegroup s (by rw [hlex, tacoAssignToks_eq_toks a ht h])

/-- the scalar spelling is the only obstacle: taco's bare `s` is not an expression of tensora's grammar
(closed witness that the hypothesis `noScalars` cannot be dropped from T2) -/
theorem taco_scalar_not_tensora :
    (PExpr.tensor "s" []).tacoToks = [.name "s"] ∧ (PExpr.tensor "s" []).toks = [.name "s", .lpar, .rpar] ∧
    unitParens [.name "s", .lpar, .rpar] = [.name "s"] ∧ ∀ e', ¬ DerivesE [.name "s"] e' := by
  refine ⟨rfl, rfl, rfl, ?_⟩
  intro e' d
  have := (cplE_of_derives d).full 3 [] rfl (by simp)
  rw [show parseExpr 3 ([Tok.name "s"] ++ []) = none by decide] at this
  cases this

/-! ### T3: regrouping preserves the meaning -/

/-- the same additive terms: same order, same coefficients, same factor lists — whatever values the literal
lexemes stand for -/
theorem termsOf_regroup (ival : String → Int) (fval : String → Rat) (e : PExpr) :
    termsOf ((tacoRegroup e).toS ival fval) = termsOf (e.toS ival fval) :=
  termsOf_tacoRegroup ival fval e

/-- hence the same value of every element of the result, for all inputs, sizes and coordinates -/
theorem denote_tacoRegroup (ival : String → Int) (fval : String → Rat) (n : String) (idx : List String)
    (e : PExpr) (inputs : Inputs) (sizes : Sizes) (coord : List Nat) :
    denote ⟨n, idx, (tacoRegroup e).toS ival fval⟩ inputs sizes coord =
      denote ⟨n, idx, e.toS ival fval⟩ inputs sizes coord := by
  simp only [denote, termsOf_tacoRegroup]

theorem denote_tacoRegroup_assign (ival : String → Int) (fval : String → Rat) (a : PAssign) :
    denote (a.tacoRegroup.toS ival fval) = denote (a.toS ival fval) := by
  funext inputs sizes coord
  exact denote_tacoRegroup ival fval a.tname a.tidx a.rhs inputs sizes coord

/-- the tensors occur in the same order … -/
theorem tensorsOf_tacoRegroup (e : PExpr) : tensorsOf (tacoRegroup e) = tensorsOf e := by
  have hA : ∀ l r, tensorsOf (appendAdd l r) = tensorsOf l ++ tensorsOf r := by
    intro l r
    induction r with
    | add x y ihx _ => simp [appendAdd, tensorsOf, ihx]
    | sub x y ihx _ => simp [appendAdd, tensorsOf, ihx]
    | _ => simp [appendAdd, tensorsOf]
  have hM : ∀ l r, tensorsOf (appendMul l r) = tensorsOf l ++ tensorsOf r := by
    intro l r
    induction r with
    | mul x y ihx _ => simp [appendMul, tensorsOf, ihx]
    | _ => simp [appendMul, tensorsOf]
  induction e with
  | add l r ihl ihr => simp [tacoRegroup, tensorsOf, hA, ihl, ihr]
  | sub l r ihl ihr => simp [tacoRegroup, tensorsOf, ihl, ihr]
  | mul l r ihl ihr => simp [tacoRegroup, tensorsOf, hM, ihl, ihr]
  | _ => rfl

/-- … so the regrouped assignment is valid exactly when the original is (same error otherwise) -/
theorem validate_tacoRegroup (a : PAssign) : validate a.tacoRegroup = validate a := by
  simp only [validate, PAssign.tacoRegroup, tensorsOf_tacoRegroup]

/-! ### T2 at the character level: tensora's own `parse_assignment` on the taco text -/

/-- tensora's lexer reads the taco text (one space after each comma) back as the taco tokens -/
theorem lex_deparseTaco (a : PAssign) (h : a.wellSpelled = true) : lex a.deparseTaco = (a.tacoToks, true) :=
  lex_deparseTaco_lem a h

/-- end to end: for a well-spelled valid assignment without scalars, `parse_assignment(deparse_to_taco(a))` is
the regrouped assignment — which has the same additive terms, hence the same meaning (`denote_tacoRegroup`) -/
theorem parse_deparseTaco (a : PAssign) (hs : a.wellSpelled = true) (ht : a.tidx.isEmpty = false)
    (hn : noScalars a.rhs = true) (hv : validate a = none) :
    parseAssignment a.deparseTaco = .ok a.tacoRegroup := by
  have := parseAssignment_of_lex_taco a ht hn _ (lex_deparseTaco a hs)
  rwa [validate_tacoRegroup, hv] at this

/-- and an invalid one is rejected with its own validation error -/
theorem parse_deparseTaco_invalid (a : PAssign) (hs : a.wellSpelled = true) (ht : a.tidx.isEmpty = false)
    (hn : noScalars a.rhs = true) (err : ParseErr) (hv : validate a = some err) :
    parseAssignment a.deparseTaco = .error err := by
  have := parseAssignment_of_lex_taco a ht hn _ (lex_deparseTaco a hs)
  rwa [validate_tacoRegroup, hv] at this

/-! ### T4: where regrouping does nothing -/

/-- no `+` with a sum/difference on the right, no `*` with a product on the right: the taco text reads back as
the very same tree -/
theorem tacoRegroup_id_of_leftNested (e : PExpr) (h : tacoLeftNested e = true) : tacoRegroup e = e :=
  tacoRegroup_of_leftNested e h

/-- the output of regrouping has that shape, so the condition is also necessary and regrouping is idempotent -/
theorem tacoLeftNested_tacoRegroup (e : PExpr) : tacoLeftNested (tacoRegroup e) = true :=
  leftNested_tacoRegroup e

theorem tacoRegroup_eq_self_iff (e : PExpr) : tacoRegroup e = e ↔ tacoLeftNested e = true :=
  ⟨fun h => h ▸ leftNested_tacoRegroup e, tacoRegroup_of_leftNested e⟩

theorem tacoRegroup_idem (e : PExpr) : tacoRegroup (tacoRegroup e) = tacoRegroup e :=
  tacoRegroup_of_leftNested _ (leftNested_tacoRegroup e)

/-- in particular the taco print of a left-nested tree without scalars is tensora's own print -/
theorem tacoToks_eq_toks_of_leftNested (e : PExpr) (hs : noScalars e = true) (h : tacoLeftNested e = true) :
    e.tacoToks = e.toks := by
  rw [tacoToks_eq_toks e hs, tacoRegroup_of_leftNested e h]

/-! ### T5: the defect that was repaired -/

/-- `a(i) - (b(i) - c(i))` -/
def tacoDefectEx : PExpr := .sub (.tensor "a" ["i"]) (.sub (.tensor "b" ["i"]) (.tensor "c" ["i"]))
/-- `(a(i) - b(i)) - c(i)` -/
def tacoDefectRead : PExpr := .sub (.sub (.tensor "a" ["i"]) (.tensor "b" ["i"])) (.tensor "c" ["i"])

/-- the old printer (right operand of `Subtract` never parenthesised) printed `a(i) - (b(i) - c(i))` as
`a(i) - b(i) - c(i)`; the grammar (and tensora's parser) read that as `(a(i) - b(i)) - c(i)`, and that tree has a
different term list — `c` enters with coefficient `-1` instead of `1` — hence a different value (`-1` instead of
`1` where all three inputs are `1`). The repaired printer keeps the parentheses and the tree. -/
theorem taco_old_defect :
    String.ofList (tacoRender tacoDefectEx.tacoToksOld) = "a(i) - b(i) - c(i)" ∧
    tacoDefectEx.tacoToksOld = tacoDefectRead.toks ∧
    DerivesE tacoDefectEx.tacoToksOld tacoDefectRead ∧
    parseExpr (3 * tacoDefectEx.tacoToksOld.length) tacoDefectEx.tacoToksOld = some (tacoDefectRead, []) ∧
    (∀ ival fval, termsOf (tacoDefectEx.toS ival fval) =
      [⟨1, [("a", ["i"])]⟩, ⟨-1, [("b", ["i"])]⟩, ⟨1, [("c", ["i"])]⟩]) ∧
    (∀ ival fval, termsOf (tacoDefectRead.toS ival fval) =
      [⟨1, [("a", ["i"])]⟩, ⟨-1, [("b", ["i"])]⟩, ⟨-1, [("c", ["i"])]⟩]) ∧
    (∀ ival fval, termsOf (tacoDefectRead.toS ival fval) ≠ termsOf (tacoDefectEx.toS ival fval)) ∧
    (∀ ival fval, denote ⟨"x", ["i"], tacoDefectEx.toS ival fval⟩ (fun _ _ => 1) (fun _ => 1) [0] = 1 ∧
      denote ⟨"x", ["i"], tacoDefectRead.toS ival fval⟩ (fun _ _ => 1) (fun _ => 1) [0] = -1) ∧
    tacoDefectEx.deparseTaco = "a(i) - (b(i) - c(i))" ∧ tacoRegroup tacoDefectEx = tacoDefectEx := by
  have hEx : ∀ ival fval, termsOf (tacoDefectEx.toS ival fval) =
      [⟨1, [("a", ["i"])]⟩, ⟨-1, [("b", ["i"])]⟩, ⟨1, [("c", ["i"])]⟩] := by
    intro ival fval
    simp [tacoDefectEx, PExpr.toS, termsOf, Term.neg]
  have hRd : ∀ ival fval, termsOf (tacoDefectRead.toS ival fval) =
      [⟨1, [("a", ["i"])]⟩, ⟨-1, [("b", ["i"])]⟩, ⟨-1, [("c", ["i"])]⟩] := by
    intro ival fval
    simp [tacoDefectRead, PExpr.toS, termsOf, Term.neg]
  refine ⟨by decide, by decide, ?_, by decide, hEx, hRd, ?_, ?_, by decide, by decide⟩
  · rw [show tacoDefectEx.tacoToksOld = tacoDefectRead.toks by decide]
    exact (derives_toks _).1
  · intro ival fval h
    rw [hEx, hRd] at h
    revert h
    decide
  · intro ival fval
    constructor
    · simp only [denote, hEx]; decide +kernel
    · simp only [denote, hRd]; decide +kernel

/-! ### examples (non-vacuity) -/

/-- `x(i,j) = a(i,j) + (b(i,j) - c(i,j)) * (d(j) * (e(j) + (f(j) + 2)))`: a right-nested sum inside a right-nested
product inside the right operand of a sum -/
def tacoExA : PAssign :=
  ⟨"x", ["i", "j"],
    .add (.tensor "a" ["i", "j"])
      (.mul (.sub (.tensor "b" ["i", "j"]) (.tensor "c" ["i", "j"]))
        (.mul (.tensor "d" ["j"]) (.add (.tensor "e" ["j"]) (.add (.tensor "f" ["j"]) (.int "2")))))⟩

example : tacoExA.deparse = "x(i,j) = a(i,j) + (b(i,j) - c(i,j)) * (d(j) * (e(j) + (f(j) + 2)))" := by decide
example : tacoExA.deparseTaco = "x(i, j) = a(i, j) + (b(i, j) - c(i, j)) * d(j) * (e(j) + f(j) + 2)" := by
  decide
/-- the product spine and the inner sum spine are turned over, the outer sum stays -/
example : tacoExA.tacoRegroup =
    ⟨"x", ["i", "j"],
      .add (.tensor "a" ["i", "j"])
        (.mul (.mul (.sub (.tensor "b" ["i", "j"]) (.tensor "c" ["i", "j"])) (.tensor "d" ["j"]))
          (.add (.add (.tensor "e" ["j"]) (.tensor "f" ["j"])) (.int "2")))⟩ := by decide
example : tacoLeftNested tacoExA.rhs = false ∧ tacoRegroup tacoExA.rhs ≠ tacoExA.rhs := by decide
example : noScalars tacoExA.rhs = true ∧ tacoExA.tidx.isEmpty = false := by decide
/-- tensora's lexer and parser read the taco text (spaces after the commas included) as the regrouped tree -/
example : lex tacoExA.deparseTaco = (tacoExA.tacoToks, true) := by decide
example : parseAssignment tacoExA.deparseTaco = .ok tacoExA.tacoRegroup :=
  parse_deparseTaco tacoExA (by decide) (by decide) (by decide) (by decide)
/-- T1 on the example, by evaluation -/
example : tacoExA.tacoToks = unitParens tacoExA.tacoRegroup.toks := by decide

/-- the three shapes of the task statement -/
example : (PExpr.add (.tensor "a" []) (.add (.tensor "b" []) (.tensor "c" []))).deparseTaco = "a + b + c" := by
  decide
example : (PExpr.add (.tensor "a" []) (.sub (.tensor "b" []) (.tensor "c" []))).deparseTaco = "a + b - c" := by
  decide
example : (PExpr.mul (.tensor "a" []) (.mul (.tensor "b" []) (.tensor "c" []))).deparseTaco = "a * b * c" := by
  decide
example : tacoRegroup (.add (.tensor "a" []) (.sub (.tensor "b" []) (.tensor "c" []))) =
    .sub (.add (.tensor "a" []) (.tensor "b" [])) (.tensor "c" []) := by decide
/-- what must keep its parentheses keeps them -/
example : (PExpr.sub (.tensor "a" []) (.add (.tensor "b" []) (.tensor "c" []))).deparseTaco = "a - (b + c)" := by
  decide
example : (PExpr.mul (.add (.tensor "a" []) (.int "1")) (.sub (.tensor "b" []) (.flt "2.5"))).deparseTaco =
    "(a + 1) * (b - 2.5)" := by decide
/-- a sum on the right of `-` is regrouped inside its parentheses only -/
example : tacoRegroup (.sub (.int "1") (.add (.int "2") (.add (.int "3") (.int "4")))) =
    .sub (.int "1") (.add (.add (.int "2") (.int "3")) (.int "4")) := by decide
/-- scalars: target and operands; `unitParens` relates the two spellings -/
example : (⟨"s", [], .mul (.tensor "t" []) (.tensor "v" ["i"])⟩ : PAssign).deparseTaco = "s = t * v(i)" := by
  decide
example : (⟨"s", [], .mul (.tensor "t" []) (.tensor "v" ["i"])⟩ : PAssign).deparse = "s() = t() * v(i)" := by
  decide
/-- coefficients of a regrouped product: `2 * (3 * (a - 5))` has the terms `2·3·1` and `2·3·(-5)` either way -/
example : termsOf ((tacoRegroup (.mul (.int "2") (.mul (.int "3") (.sub (.tensor "a" ["i"]) (.int "5"))))).toS
      (fun s => if s = "2" then 2 else if s = "3" then 3 else 5) (fun _ => 0)) =
    [⟨6, [("a", ["i"])]⟩, ⟨-30, []⟩] := by
  decide +kernel

end TV.Parse
