import TensoraVerif.Lemmas.Ownership

/-!
C13 — ownership of kernel-allocated arrays (`Model/Ownership.lean`): under reference counting every
array a kernel ever allocated is freed exactly once, and only after the last name reaching the
object that owns it has disappeared; a call never frees the arrays of a tensor that is still named
afterwards. All statements hold for every history of operations (`run St.init ops`).

`Inv` (of the model file) is preserved as stated: no field needed correcting (checked exhaustively
on all histories of length ≤ 4 over 17 operations, including `alias x x`, `pickle x x`, `feed x x`
and `del` of an unbound name, before proving it). `freed_exactly_once` uses the strengthened
invariant `Inv'` = `Inv` + "nothing is lost" of `Lemmas/Ownership.lean`.
-/
namespace TV.Own

theorem inv_init : Inv St.init := Inv'.init.toInv

theorem inv_step (s : St) (op : Op) (h : Inv s) : Inv (step s op).1 := by
  rcases step_cases s op with he | ⟨ns, he⟩ | ⟨n, ns, he⟩ <;> rw [he]
  · exact h
  · exact (h.pre.names ns).collect
  · exact ((h.pre.newObj n).names ns).collect

/-- every reachable state satisfies the invariant: for every history -/
theorem inv_run (ops : List Op) : Inv (run St.init ops) := (Inv'.init.run ops).toInv

/-- the strengthened invariant (with "nothing is lost") holds in every reachable state -/
theorem inv'_run (ops : List Op) : Inv' (run St.init ops) := Inv'.init.run ops

/-- "freed exactly once, after its last user": in every reachable state each array ever allocated is
either owned by a live object that some name reaches (and then it has not been freed), or it has been
freed — exactly once -/
theorem freed_exactly_once (ops : List Op) (a : Nat) (ha : a < (run St.init ops).nextArr) :
    let s := run St.init ops
    (a ∈ s.freed ∧ s.freed.count a = 1 ∧ ∀ o ∈ s.objs, a ∉ o.2) ∨
    (a ∉ s.freed ∧ ∃ o ∈ s.objs, a ∈ o.2 ∧ ∃ n ∈ s.names, n.2 = o.1) := by
  intro s
  have h : Inv' s := Inv'.init.run ops
  by_cases hf : a ∈ s.freed
  · exact Or.inl ⟨hf, count_eq_one_of_nodup h.freed_nodup hf,
      fun o ho hao => h.live_not_freed o ho a hao hf⟩
  · rcases h.complete a ha with hf' | ⟨o, ho, hao⟩
    · exact absurd hf' hf
    · exact Or.inr ⟨hf, o, ho, hao, h.live_named o ho⟩

/-- the arrays reported as freed by a step are exactly the new suffix of the log -/
theorem step_freed_suffix (s : St) (op : Op) : (step s op).1.freed = s.freed ++ (step s op).2 := by
  rcases step_cases s op with he | ⟨ns, he⟩ | ⟨n, ns, he⟩ <;> rw [he]
  · simp
  · exact collect_freed _
  · exact collect_freed _

/-- a call never frees the arrays of a tensor that is still named afterwards (inputs are never freed
by a call) -/
theorem step_keeps_named (s : St) (op : Op) (h : Inv s) (o : Nat × List Nat) (ho : o ∈ s.objs)
    (hn : ∃ n ∈ (step s op).1.names, n.2 = o.1) :
    o ∈ (step s op).1.objs ∧ ∀ a ∈ o.2, a ∉ (step s op).2 := by
  have hmem : o ∈ (step s op).1.objs := by
    rcases step_objs_mono s op with he | ⟨s', he, hmono⟩
    · rw [he]; exact ho
    · rw [he] at hn ⊢
      exact mem_collect_objs.2 ⟨hmono o ho, hn⟩
  refine ⟨hmem, fun a ha hfr => ?_⟩
  have hinv := inv_step s op h
  refine hinv.live_not_freed o hmem a ha ?_
  rw [step_freed_suffix]
  exact List.mem_append_right _ hfr

/-! ### non-vacuity -/

/-- the per-step freed lists of a history -/
def freedTrace : St → List Op → List (List Nat)
  | _, [] => []
  | s, op :: ops => (step s op).2 :: freedTrace (step s op).1 ops

/-- `a = evaluate(..)` (sparse output: three arrays); `b = a`; `del a`; a gc pass; `del b`:
nothing is freed while `b` still reaches the object, all three arrays go with the last name -/
example : freedTrace St.init [.eval 0 .sparse, .alias 1 0, .del 0, .gc, .del 1]
    = [[], [], [], [], [0, 1, 2]] := by decide

/-- … and the final state: no names, no live objects, each array in the log once -/
example : run St.init [.eval 0 .sparse, .alias 1 0, .del 0, .gc, .del 1]
    = ⟨[], [], 1, 3, [0, 1, 2]⟩ := by decide

/-- `x = f(x)`: rebinding the only name of the input drops the old object when the result is bound
(the one case where an input's arrays are freed during a step — it is no longer named afterwards) -/
example : freedTrace St.init [.eval 0 .dense, .feed 0 0 .sparse] = [[], [0]] := by decide

/-- `y = f(x)`: the input stays named and keeps its arrays; `step_keeps_named` applies -/
example : (step (run St.init [.eval 0 .dense]) (.feed 1 0 .sparse))
    = (⟨[(1, 1), (0, 0)], [(1, [1, 2, 3]), (0, [0])], 2, 4, []⟩, []) := by decide

/-- degenerate operations keep the invariant's data consistent: `alias x x`, `pickle x x`,
`del` of an unbound name -/
example : run St.init [.eval 0 .sparse, .alias 0 0, .del 7, .pickle 0 0]
    = ⟨[(0, 1)], [(1, [])], 2, 3, [0, 1, 2]⟩ := by decide

/-- `freed_exactly_once` instantiated: array 1 of the first history is freed exactly once -/
example : let s := run St.init [.eval 0 .sparse, .alias 1 0, .del 0, .gc, .del 1]
    1 ∈ s.freed ∧ s.freed.count 1 = 1 := by
  have := freed_exactly_once [.eval 0 .sparse, .alias 1 0, .del 0, .gc, .del 1] 1 (by decide)
  rcases this with h | h
  · exact ⟨h.1, h.2.1⟩
  · exact absurd (by decide) h.1

end TV.Own
