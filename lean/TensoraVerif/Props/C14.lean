import TensoraVerif.Lemmas.Concurrency

/-!
C14 — concurrent evaluations over the shared kernel cache and the shared ownership table
(`Model/Concurrency.lean`): for every `compile`, every `exec`, every list of calls and every
schedule (any interleaving of the threads' atomic steps, of any length, fair or not), a call that
has finished returned exactly what it returns when made alone; the cache only ever memoises
`compile`; ownership-table slots are never shared; and every schedule that gives each thread six
steps finishes all of them.
-/
namespace TV.Conc

variable (compile : Nat → Nat) (exec : Nat → Nat → Nat)

/-- the cache only ever maps a key to the kernel compiled for that key (given a correctly warmed
cache; `CacheOK` is defined in `Lemmas/Concurrency.lean`) -/
theorem cache_memo_invariant (calls : List Call) (warm : List (Nat × Nat))
    (hw : CacheOK compile warm) (sched : List Nat) :
    CacheOK compile (runSched compile exec (Sys.init calls warm) sched).shared.cache :=
  ((SInv.init compile exec calls warm hw).run compile exec sched).cache_ok

/-- every interleaving: a call that has finished returned exactly what it returns when made alone -/
theorem interleaving_refines_sequential (calls : List Call) (warm : List (Nat × Nat))
    (hw : CacheOK compile warm) (sched : List Nat) (t : Nat) (c : Call) (out : Nat)
    (h : (runSched compile exec (Sys.init calls warm) sched).threads[t]? = some (c, .done out)) :
    calls[t]? = some c ∧ out = sequential compile exec c :=
  ((SInv.init compile exec calls warm hw).run compile exec sched).thread_ok t c (.done out) h

/-- progress: a fair enough schedule finishes everybody — each thread needs at most 6 steps -/
theorem all_done_after_enough_steps (calls : List Call) (warm : List (Nat × Nat)) (sched : List Nat)
    (hfair : ∀ t, t < calls.length → 6 ≤ sched.count t) :
    ∀ t (ht : t < calls.length), ∃ out,
      (runSched compile exec (Sys.init calls warm) sched).threads[t]? = some (calls[t], .done out) := by
  intro t ht
  have h0 : (Sys.init calls warm).threads[t]? = some (calls[t], .start) := by
    simp [Sys.init, ht]
  obtain ⟨ph', h', hr⟩ := run_rem compile exec sched _ t _ _ h0
  have := hfair t ht
  have h6 : Phase.start.rem = 6 := rfl
  have hz : ph'.rem = 0 := by omega
  obtain ⟨out, rfl⟩ := Phase.rem_eq_zero hz
  exact ⟨out, h'⟩

/-- ownership-table entries are created under fresh slots and only ever touched by their own thread -/
theorem table_slots_distinct (calls : List Call) (warm : List (Nat × Nat)) (sched : List Nat) :
    ((runSched compile exec (Sys.init calls warm) sched).shared.table.map (·.1)).Nodup := by
  -- the table part of the invariant does not depend on the cache: run it with `compile`-correctness
  -- replaced by the trivial cache predicate
  have key : ∀ (s : Sys), (∀ x ∈ s.shared.table.map (·.1), x < s.shared.nextSlot) →
      (s.shared.table.map (·.1)).Nodup →
      (∀ x ∈ (runSched compile exec s sched).shared.table.map (·.1),
        x < (runSched compile exec s sched).shared.nextSlot) ∧
      ((runSched compile exec s sched).shared.table.map (·.1)).Nodup := by
    induction sched with
    | nil => intro s hb hn; exact ⟨hb, hn⟩
    | cons t sched ih =>
      intro s hb hn
      rw [runSched_cons]
      obtain ⟨hb', hn'⟩ := step_table compile exec s t hb hn
      exact ih _ hb' hn'
  exact (key (Sys.init calls warm) (by intro x hx; cases hx) List.nodup_nil).2

/-- a finished thread's result does not depend on the schedule: two schedules that both finish
thread `t` give it the same output -/
theorem schedule_independent (calls : List Call) (warm : List (Nat × Nat)) (hw : CacheOK compile warm)
    (sched sched' : List Nat) (t : Nat) (c c' : Call) (out out' : Nat)
    (h : (runSched compile exec (Sys.init calls warm) sched).threads[t]? = some (c, .done out))
    (h' : (runSched compile exec (Sys.init calls warm) sched').threads[t]? = some (c', .done out')) :
    c = c' ∧ out = out' := by
  obtain ⟨h1, h2⟩ := interleaving_refines_sequential compile exec calls warm hw sched t c out h
  obtain ⟨h1', h2'⟩ := interleaving_refines_sequential compile exec calls warm hw sched' t c' out' h'
  rw [h1] at h1'
  cases h1'
  exact ⟨rfl, h2.trans h2'.symm⟩

/-! ### non-vacuity -/

/-- two calls with the same key and a cold cache, interleaved step by step: both miss, both compile,
both insert (the second insert overwrites an identical entry), both finish with the sequential
result; the cache ends with a single entry and the two table slots are distinct and owned -/
example :
    runSched (fun k => k + 100) (fun k x => k * 1000 + x) (Sys.init [⟨7, 1⟩, ⟨7, 2⟩] [])
      [0, 1, 0, 1, 0, 1, 0, 1, 0, 1, 0, 1]
    = ⟨[(⟨7, 1⟩, .done 107001), (⟨7, 2⟩, .done 107002)],
       ⟨[(7, 107)], [(1, 1, true), (0, 0, true)], 2⟩⟩ := by decide

example : sequential (fun k => k + 100) (fun k x => k * 1000 + x) ⟨7, 1⟩ = 107001 ∧
    sequential (fun k => k + 100) (fun k x => k * 1000 + x) ⟨7, 2⟩ = 107002 := by decide

/-- the intermediate state after both threads have looked up (both missed) and compiled -/
example :
    (runSched (fun k => k + 100) (fun k x => k * 1000 + x) (Sys.init [⟨7, 1⟩, ⟨7, 2⟩] [])
      [0, 1, 0, 1]).threads = [(⟨7, 1⟩, .compiled 107), (⟨7, 2⟩, .compiled 107)] := by decide

/-- a different interleaving (thread 1 runs to completion first; thread 0 then hits the cache and
needs only four steps): same results -/
example :
    (runSched (fun k => k + 100) (fun k x => k * 1000 + x) (Sys.init [⟨7, 1⟩, ⟨7, 2⟩] [])
      [1, 1, 1, 1, 1, 1, 0, 0, 0, 0]).threads
    = [(⟨7, 1⟩, .done 107001), (⟨7, 2⟩, .done 107002)] := by decide

/-- an unfair schedule (thread 1 starved, out-of-range index 5 scheduled): thread 0 still finishes
with the sequential result, thread 1 has not started -/
example :
    (runSched (fun k => k + 100) (fun k x => k * 1000 + x) (Sys.init [⟨7, 1⟩, ⟨7, 2⟩] [])
      [0, 5, 0, 0, 0, 0, 0, 0]).threads
    = [(⟨7, 1⟩, .done 107001), (⟨7, 2⟩, .start)] := by decide

/-- a wrongly warmed cache is what the hypothesis `CacheOK` excludes: with a stale entry the call
returns the stale kernel's result -/
example :
    (runSched (fun k => k + 100) (fun k x => k * 1000 + x) (Sys.init [⟨7, 1⟩] [(7, 5)])
      [0, 0, 0, 0]).threads = [(⟨7, 1⟩, .done 5001)] := by decide

end TV.Conc
