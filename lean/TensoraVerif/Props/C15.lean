import TensoraVerif.Lemmas.ApiProblem

/-!
C15 — the canonical problem built by `makeProblem` (`Model/Api.lean`, port of `make_problem`) does not depend
on how the request is presented: not on the order in which the formats are listed, and not on whether a
tensor with the default (all-dense, natural order) format is listed at all.
-/
namespace TV.Api

/-- the result depends only on the mapping, not on the order in which the user listed the formats
(`hn`: the formats are a dictionary — no name twice) -/
theorem makeProblem_perm (a : AssignSig) (fs fs' : List (String × Fmt)) (hp : fs.Perm fs')
    (hn : (fs.map (·.1)).Nodup) : makeProblem a fs = makeProblem a fs' := by
  have hfill : fillFmt fs = fillFmt fs' := funext (fillFmt_perm hp hn)
  rw [makeProblem_eq, makeProblem_eq, unusedAny_perm a hp, hfill]

/-- listing a tensor explicitly with the all-dense natural-order format is the same as not listing it -/
theorem makeProblem_dense_default (a : AssignSig) (fs : List (String × Fmt)) (n : String) (o : Nat)
    (hmem : (n, o) ∈ variableOrders a) (hfresh : n ∉ fs.map (·.1)) :
    makeProblem a ((n, Fmt.allDense o) :: fs) = makeProblem a fs := by
  have hany : unusedAny a ((n, Fmt.allDense o) :: fs) = unusedAny a fs := by
    have : (variableOrders a).any (·.1 == n) = true := List.any_eq_true.mpr ⟨_, hmem, by simp⟩
    simp [unusedAny, this]
  have hfill : (variableOrders a).map (fillFmt ((n, Fmt.allDense o) :: fs)) =
      (variableOrders a).map (fillFmt fs) := by
    apply List.map_congr_left
    rintro ⟨n', o'⟩ hno
    unfold fillFmt
    by_cases hnn : n = n'
    · subst hnn
      have ho : o = o' := variableOrders_unique a hmem hno
      subst ho
      have hnone : fs.find? (·.1 == n) = none := by
        apply List.find?_eq_none.mpr
        intro x hx hxe
        exact hfresh (List.mem_map.mpr ⟨x, hx, by simpa using hxe⟩)
      simp [hnone]
    · have : ((n, Fmt.allDense o).1 == n') = false := by simp [hnn]
      simp only [List.find?_cons, this]
  rw [makeProblem_eq, makeProblem_eq, hany, hfill]

/-- a successful result lists exactly the tensors of the assignment, in order of appearance (target first),
each once and each with a format of its order -/
theorem makeProblem_ok_shape (a : AssignSig) (fs : List (String × Fmt)) (p : Problem)
    (h : makeProblem a fs = .ok p) :
    p.assign = a ∧ p.formats.map (·.1) = (variableOrders a).map (·.1) ∧
    ∀ k (hk : k < p.formats.length), (p.formats[k]).2.order = ((variableOrders a)[k]!).2 := by
  rw [makeProblem_eq] at h
  split at h
  · cases h
  split at h
  · cases h
  rename_i _ hdim
  cases h
  refine ⟨rfl, ?_, ?_⟩
  · simp only [List.map_map]
    apply List.map_congr_left
    intro x _
    exact fillFmt_fst fs x
  · intro k hk
    simp only [List.length_map] at hk
    have hz : k < ((variableOrders a).zip ((variableOrders a).map (fillFmt fs))).length := by simp [hk]
    have hm := List.getElem_mem hz
    have hne : ¬ ((fun (x : (String × Nat) × (String × Fmt)) => x.1.2 != x.2.2.order)
        (((variableOrders a).zip ((variableOrders a).map (fillFmt fs)))[k]) = true) :=
      fun hx => hdim (List.any_eq_true.mpr ⟨_, hm, hx⟩)
    simp only [List.getElem_zip, List.getElem_map, bne_iff_ne, ne_eq, Decidable.not_not] at hne
    simp only [List.getElem_map]
    rw [getElem!_pos (variableOrders a) k hk]
    exact hne.symm

/-- the names of a successful problem's formats are duplicate-free — hypothesis `hf` of C10 -/
theorem makeProblem_ok_nodup (a : AssignSig) (fs : List (String × Fmt)) (p : Problem)
    (h : makeProblem a fs = .ok p) : (p.formats.map (·.1)).Nodup := by
  rw [(makeProblem_ok_shape a fs p h).2.1]
  exact variableOrders_nodup a

/-- … and so are the input parameters' names: a problem built by `makeProblem` satisfies `hf` of
`callCheck_ok_iff` (C10) -/
theorem makeProblem_inputs_nodup (a : AssignSig) (fs : List (String × Fmt)) (p : Problem)
    (h : makeProblem a fs = .ok p) : ((inputFormats p).map (·.1)).Nodup :=
  List.Nodup.sublist (List.Sublist.map _ List.filter_sublist) (makeProblem_ok_nodup a fs p h)

/-! ### examples -/

def exSig : AssignSig := ⟨"y", ["i"], [⟨"A", ["i", "j"]⟩, ⟨"x", ["j"]⟩, ⟨"A", ["i", "j"]⟩]⟩

example : variableOrders exSig = [("y", 1), ("A", 2), ("x", 1)] := by decide

example : makeProblem exSig [("x", ⟨[.compressed], [0]⟩), ("A", ⟨[.dense, .compressed], [1, 0]⟩)] =
    .ok ⟨exSig, [("y", ⟨[.dense], [0]⟩), ("A", ⟨[.dense, .compressed], [1, 0]⟩), ("x", ⟨[.compressed], [0]⟩)]⟩ := by
  decide

example : makeProblem exSig [("A", ⟨[.dense, .compressed], [1, 0]⟩), ("y", Fmt.allDense 1), ("x", ⟨[.compressed], [0]⟩)] =
    makeProblem exSig [("x", ⟨[.compressed], [0]⟩), ("A", ⟨[.dense, .compressed], [1, 0]⟩)] := by decide

example : makeProblem exSig [("B", Fmt.allDense 1)] = .error .unusedFormat := by decide
example : makeProblem exSig [("A", Fmt.allDense 1)] = .error .incorrectDimensions := by decide

/-- `hn` of `makeProblem_perm` cannot be dropped: with a name listed twice the first entry wins -/
example : makeProblem exSig [("x", ⟨[.compressed], [0]⟩), ("x", ⟨[.dense], [0]⟩)] ≠
    makeProblem exSig [("x", ⟨[.dense], [0]⟩), ("x", ⟨[.compressed], [0]⟩)] := by decide

end TV.Api
