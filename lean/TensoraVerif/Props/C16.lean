import TensoraVerif.Lemmas.FrameDead
import TensoraVerif.Lemmas.FrameExamples

/-!
C16 — a dead variable cannot influence the run (non-interference). If `x` is dead in `s`
(`Stmt.deadVar x`, `Model/IR.lean`: never read, never assigned except by its own declarations) and
two states agree on everything except the value held by `x` (`EqExcept x`,
`Lemmas/FrameDead.lean`), then for every fuel both runs succeed with final states that again agree
except on `x`, the same return value, the same number of loop iterations and of steps — or both
fail with the same error. No side condition on `x` is needed (it may be declared several times, be
a parameter, be absent from the state, hold a pointer, …).
-/
namespace TV.IR
variable {F : Type} [FloatOps F]

theorem deadVar_frame (x : String) (fuel : Nat) (s : Stmt F) (σ₁ σ₂ : State F)
    (hd : s.deadVar x = true) (hσ : EqExcept x σ₁ σ₂) :
    match exec fuel s σ₁, exec fuel s σ₂ with
    | .ok o₁, .ok o₂ => EqExcept x o₁.st o₂.st ∧ o₁.ret = o₂.ret ∧ o₁.iters = o₂.iters ∧ o₁.steps = o₂.steps
    | .error e₁, .error e₂ => e₁ = e₂
    | _, _ => False := by
  have := exec_dead x fuel s σ₁ hd σ₂ hσ
  cases h₁ : exec fuel s σ₁ <;> cases h₂ : exec fuel s σ₂ <;> rw [h₁, h₂] at this <;> exact this

/-! ### non-vacuity (over the exact carrier `F := Int`) -/

/-- `t` is dead in `y[0] = a[0]; int t = 5; return y[0];`, two states that differ in the value of
`t` (`1` / uninitialised) are `EqExcept "t"`, and the program runs on the first … -/
example : FrameEx.deadProg.deadVar "t" = true ∧
    EqExcept "t" (FrameEx.stT (some (.int 1))) (FrameEx.stT none) ∧
    ∃ o, exec 0 FrameEx.deadProg (FrameEx.stT (some (.int 1))) = .ok o ∧ o.ret = some (.int 7) :=
  ⟨by decide, FrameEx.stT_eqExcept _ _, FrameEx.dead_runs⟩

/-- … so by `deadVar_frame` it runs on the second, with the same result. -/
example : ∃ o, exec 0 FrameEx.deadProg (FrameEx.stT none) = .ok o ∧ o.ret = some (.int 7) := by
  obtain ⟨o₁, h₁, hr⟩ := FrameEx.dead_runs
  have := deadVar_frame "t" 0 FrameEx.deadProg _ _ (by decide) (FrameEx.stT_eqExcept (some (.int 1)) none)
  rw [h₁] at this
  cases h₂ : exec 0 FrameEx.deadProg (FrameEx.stT none) with
  | error e => rw [h₂] at this; exact this.elim
  | ok o₂ => rw [h₂] at this; exact ⟨o₂, rfl, this.2.1 ▸ hr⟩

/-- a variable that is read is not dead: `y` in the same program -/
example : FrameEx.deadProg.deadVar "y" = false := by decide

end TV.IR
