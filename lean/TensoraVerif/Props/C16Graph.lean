import TensoraVerif.Lemmas.GraphAlg

/-!
C16 — statements about `extract_context` (`Model/Graph.lean`): a loop classified as sparse may skip the
coordinates at which all of its sparse leaves are absent, and a syntactic condition under which a loop is
classified as sparse.
-/
namespace TV.Graph

/-- C16/C01: a loop that the compiler classifies as sparse may skip every coordinate at which all of its
sparse leaves are absent, because the expression is zero there -/
theorem context_sparse_sound (ρ : String → Rat) (e : IdExpr) (i : String)
    (hs : (extractContext e i).isSparse = true)
    (h0 : ∀ l ∈ (extractContext e i).sparseLeaves, ρ l.tensor.id = 0) : value ρ e = 0 := by
  induction e with
  | int v =>
    have : v = 0 := by simpa [extractContext] using hs
    simp [value, this]
  | flt v =>
    have : v = 0 := by simpa [extractContext] using hs
    simp [value, this]
  | tensor t =>
    simp only [extractContext] at hs h0
    split at hs
    · cases hs
    · split at hs
      · cases hs
      · rename_i l heq hm
        simp only [heq, hm, if_false] at h0
        exact h0 ⟨t, l⟩ (List.mem_singleton.mpr rfl)
  | add l r ihl ihr =>
    simp only [extractContext, context_add_isSparse, Bool.and_eq_true] at hs
    simp only [extractContext, context_add_sparseLeaves, List.mem_append] at h0
    simp only [value, ihl hs.1 (fun x hx => h0 x (.inl hx)), ihr hs.2 (fun x hx => h0 x (.inr hx)),
      Rat.add_zero]
  | mul l r ihl ihr =>
    simp only [extractContext, context_mul_isSparse, Bool.or_eq_true] at hs
    simp only [extractContext, context_mul_sparseLeaves, List.mem_append] at h0
    rcases hs with hs | hs
    · simp only [value, ihl hs (fun x hx => h0 x (.inl hx)), Rat.zero_mul]
    · simp only [value, ihr hs (fun x hx => h0 x (.inr hx)), Rat.mul_zero]

/-- every additive term mentions `i` (sum: both sides; product: either side; tensor: has the index) -/
def everyTermHas (i : String) : IdExpr → Bool
  | .int _ => false
  | .flt _ => false
  | .tensor t => t.indexes.contains i
  | .add l r => everyTermHas i l && everyTermHas i r
  | .mul l r => everyTermHas i l || everyTermHas i r

/-- every tensor occurrence that has index `i` stores it in a compressed level -/
def storesCompressed (i : String) : IdExpr → Bool
  | .int _ => true
  | .flt _ => true
  | .tensor t =>
    match t.indexes.findIdx? (· == i) with
    | none => true
    | some l => decide (t.modes.getD l .dense = .compressed)
  | .add l r => storesCompressed i l && storesCompressed i r
  | .mul l r => storesCompressed i l && storesCompressed i r

/-- `storesCompressed` says exactly: for every tensor `t` in `e`, if `i` is found at level `l` of `t` then
that level is compressed -/
def tensorsOf : IdExpr → List TensorId
  | .int _ => []
  | .flt _ => []
  | .tensor t => [t]
  | .add l r => tensorsOf l ++ tensorsOf r
  | .mul l r => tensorsOf l ++ tensorsOf r

theorem storesCompressed_iff (i : String) (e : IdExpr) :
    storesCompressed i e = true ↔
      ∀ t ∈ tensorsOf e, ∀ l, t.indexes.findIdx? (· == i) = some l → t.modes.getD l .dense = .compressed := by
  induction e with
  | int v => simp [storesCompressed, tensorsOf]
  | flt v => simp [storesCompressed, tensorsOf]
  | tensor t =>
    simp only [storesCompressed, tensorsOf, List.mem_singleton, forall_eq]
    split
    · rename_i h; simp [h]
    · rename_i l h; simp [h]
  | add l r ihl ihr =>
    simp only [storesCompressed, tensorsOf, Bool.and_eq_true, ihl, ihr, List.mem_append]
    exact ⟨fun h t ht => ht.elim (h.1 t) (h.2 t), fun h => ⟨fun t ht => h t (.inl ht), fun t ht => h t (.inr ht)⟩⟩
  | mul l r ihl ihr =>
    simp only [storesCompressed, tensorsOf, Bool.and_eq_true, ihl, ihr, List.mem_append]
    exact ⟨fun h t ht => ht.elim (h.1 t) (h.2 t), fun h => ⟨fun t ht => h t (.inl ht), fun t ht => h t (.inr ht)⟩⟩

theorem context_sparse_of_condition (e : IdExpr) (i : String)
    (h1 : everyTermHas i e = true) (h2 : storesCompressed i e = true) : (extractContext e i).isSparse = true := by
  induction e with
  | int v => cases h1
  | flt v => cases h1
  | tensor t =>
    simp only [everyTermHas] at h1
    simp only [storesCompressed] at h2
    simp only [extractContext]
    split
    · rename_i hnone
      rw [List.findIdx?_eq_none_iff] at hnone
      have := hnone i (by simpa using h1)
      simp at this
    · rename_i l hl
      simp only [hl, decide_eq_true_eq] at h2
      rw [h2]; rfl
  | add l r ihl ihr =>
    simp only [everyTermHas, storesCompressed, Bool.and_eq_true] at h1 h2
    simp only [extractContext, context_add_isSparse, ihl h1.1 h2.1, ihr h1.2 h2.2, Bool.and_self]
  | mul l r ihl ihr =>
    simp only [everyTermHas, Bool.or_eq_true] at h1
    simp only [storesCompressed, Bool.and_eq_true] at h2
    simp only [extractContext, context_mul_isSparse, Bool.or_eq_true]
    exact h1.imp (fun h => ihl h h2.1) (fun h => ihr h h2.2)

/-- non-vacuity: `A(i,j) * x(j) + B(i,j)` with `j` compressed in `A`, `B` and `x`: both conditions hold for
`j`; for `i` (dense in `A`, `B`) the second fails and the loop is dense; with a dense `x` the condition fails
for `j` although the loop is still sparse (the condition is sufficient, not necessary) -/
example :
    let A : TensorId := ⟨"0", "A", ["i", "j"], [.dense, .compressed]⟩
    let B : TensorId := ⟨"1", "B", ["i", "j"], [.dense, .compressed]⟩
    let x : TensorId := ⟨"2", "x", ["j"], [.compressed]⟩
    let xd : TensorId := ⟨"2", "x", ["j"], [.dense]⟩
    let e : IdExpr := .add (.mul (.tensor A) (.tensor x)) (.tensor B)
    let e' : IdExpr := .add (.mul (.tensor A) (.tensor xd)) (.tensor B)
    everyTermHas "j" e = true ∧ storesCompressed "j" e = true ∧ (extractContext e "j").isSparse = true ∧
    everyTermHas "i" e = true ∧ storesCompressed "i" e = false ∧ (extractContext e "i").isSparse = false ∧
    storesCompressed "j" e' = false ∧ (extractContext e' "j").isSparse = true := by decide

end TV.Graph
