import TensoraVerif.Lemmas.DimDeadGenerate
import TensoraVerif.Lemmas.DimDeadCondition
import TensoraVerif.Lemmas.DimDeadExamples
import TensoraVerif.Props.C16

/-!
C16 for *every* kernel the lowering pass can produce (not only per-kernel certificates).

The per-kernel certificate of C16 is `Stmt.deadVar (dimName i)` (`Model/IR.lean`: the variable
`<i>_dim` is never read), which `deadVar_frame` (`Props/C16.lean`) turns into non-interference. Here
the certificate is proved once and for all, from a computable condition on the iteration graph.

* **D1** `dimFree i outT g` (`Lemmas/DimDeadGraph.lean`) `= tensorFree i outT && g.dimFreeG i`:
  (a) `tensorFree i t` for the output tensor, every tensor of every terminal expression and the
      tensor of every output leaf: every level of `t` whose index is `i` is compressed (levels
      counted up to `max indexes.length modes.length`), and no index name of `t` is the text
      `<i>_dim`;
  (b) every iteration node `.iter j o n` has `j ≠ <i>_dim`, and if `j = i` it is lowered as a SPARSE
      loop (`dimIterSparse j o n`, literally the `isSparse` of `lower`).
  `dimName_inj`: `dimName` is injective (needed: `<j>_dim` for `j ≠ i` is freely read).
* **D2** `lower_deadDim` — the recursive lowering, for every fuel, kind and output object.
* **D3** `generateIr_deadDim` — the whole function; `generateIr_deadDim_alnum` — the name-hygiene
  hypothesis discharged for names without `'_'` (every name the parser accepts is alphanumeric).
* **D4** `peepF_deadDim` — the optimised kernel.
* `generateIr_dim_frame` — with `deadVar_frame`: the value held by `<i>_dim` cannot influence the
  run of the optimised kernel, in particular not its number of loop iterations.
* **D5** `dimFreeG_of_syntactic_condition`, `generateIr_deadDim_of_condition` — part (b) follows
  from the syntactic condition of the property (`everyTermHas i` on every terminal; the
  `storesCompressed i` half is implied by part (a)).
* Non-vacuity: sparse vector addition (all hypotheses hold, every kernel kind is generated) and a
  dense operand (`dimFree` fails and the generated kernel reads `i_dim`).
-/
namespace TV.Gen
open TV.IR TV.Graph
variable {F : Type}

/-! ### D1 -/

/-- `dimName` is injective: distinct indexes have distinct dimension variables. -/
theorem dimName_inj (i j : String) (h : dimName i = dimName j) : i = j :=
  dimName_injective h

/-- what `dimFree` says, unfolded one level -/
theorem dimFree_iff (i : String) (outT : TensorId) (g : IGraph) :
    dimFree i outT g = true ↔ tensorFree i outT = true ∧ g.dimFreeG i = true := by
  simp [dimFree]

/-- what `tensorFree` says -/
theorem tensorFree_iff (i : String) (t : TensorId) :
    tensorFree i t = true ↔
      (∀ l, l < max t.indexes.length t.modes.length → t.indexes.getD l "" = i →
        t.modes.getD l .dense = .compressed) ∧
      ∀ j ∈ t.indexes, j ≠ dimName i := by
  simp only [tensorFree, Bool.and_eq_true, List.all_eq_true, List.mem_range, Bool.or_eq_true, bne_iff_ne,
    beq_iff_eq]
  constructor
  · rintro ⟨h1, h2⟩
    exact ⟨fun l hl he => (h1 l hl).resolve_left (fun hne => hne he), h2⟩
  · rintro ⟨h1, h2⟩
    refine ⟨fun l hl => ?_, h2⟩
    by_cases he : t.indexes.getD l "" = i
    · exact Or.inr (h1 l hl he)
    · exact Or.inl he

/-! ### D2 -/

/-- **D2.** For every fuel, kernel kind, literal conversion, graph `g` with `g.dimFreeG i` and output
object `out` with `out.dimOK i` (its tensor is `tensorFree i`; a bucket does not range over a level of
index `i`; `bucket_<id>` / `i_bucket_<id>` are not the text `<i>_dim`), the code emitted by
`lower` never mentions `<i>_dim`. -/
theorem lower_deadDim (i : String) (ofRat : Rat → F) (k : Kind) (fuel : Nat) (g : IGraph) (out : Output)
    (b : SB F) (hout : out.dimOK i) (hg : g.dimFreeG i = true)
    (h : lower ofRat fuel g out k = .ok b) : deadVarL (dimName i) b.lines = true :=
  lower_dead i ofRat k fuel g out b hout hg h

/-- the hypothesis on the output object, for the output `generateIr` starts with -/
theorem dimOK_append (i : String) (t : TensorId) (n : Nat) :
    (Output.append t n).dimOK i ↔ tensorFree i t = true ∧ bucketNamesOK i t := Iff.rfl

/-- … and for a bucket -/
theorem dimOK_bucket (i : String) (t : TensorId) (layers : List Nat) :
    (Output.bucket t layers).dimOK i ↔
      tensorFree i t = true ∧ bucketNamesOK i t ∧ ∀ l ∈ layers, t.indexes.getD l "" ≠ i := Iff.rfl

/-! ### D3 -/

/-- **D3.** For every assignment, format table, graph, literal conversion, initial capacity and
kernel kind: if `dimFree i outT g` holds for the output tensor `outT` that `generateIr` computes, and
no tensor name of the problem nor `bucket_<out id>` / `i_bucket_<out id>` is the text `<i>_dim`
(`namesClear`), then `<i>_dim` is dead in the generated function: it is declared by
"Extract dimensions" and never read. -/
theorem generateIr_deadDim (i : String) (ofRat : Rat → F) (cap : Option Int) (a : Alg.DAssign)
    (formats : Formats) (g : IGraph) (k : Kind) (f : Func F)
    (hfree : dimFree i (outTensor a formats) g = true) (hnames : namesClear i a formats = true)
    (h : generateIr ofRat cap a formats g k = .ok f) : f.body.deadVar (dimName i) = true :=
  generateIr_dead i ofRat cap a formats g k f hfree hnames h

/-- **D3 for parser-accepted names.** If neither the index `i` nor any tensor name of the problem
contains `'_'`, the name-hygiene hypothesis holds. -/
theorem generateIr_deadDim_alnum (i : String) (ofRat : Rat → F) (cap : Option Int) (a : Alg.DAssign)
    (formats : Formats) (g : IGraph) (k : Kind) (f : Func F)
    (hfree : dimFree i (outTensor a formats) g = true)
    (hi : '_' ∉ i.toList)
    (h1 : ∀ e ∈ indexDimensions a, '_' ∉ e.2.1.toList)
    (h2 : ∀ e ∈ formats, '_' ∉ e.1.toList)
    (h3 : '_' ∉ a.tname.toList)
    (h : generateIr ofRat cap a formats g k = .ok f) : f.body.deadVar (dimName i) = true :=
  generateIr_dead i ofRat cap a formats g k f hfree (namesClear_of_no_underscore i a formats hi h1 h2 h3) h

/-! ### D4 -/

/-- **D4.** The same for the kernel after the peephole optimiser. -/
theorem peepF_deadDim [FloatOps F] (i : String) (ofRat : Rat → F) (cap : Option Int) (a : Alg.DAssign)
    (formats : Formats) (g : IGraph) (k : Kind) (f : Func F)
    (hfree : dimFree i (outTensor a formats) g = true) (hnames : namesClear i a formats = true)
    (h : generateIr ofRat cap a formats g k = .ok f) : (peepF f).body.deadVar (dimName i) = true :=
  deadVar_peepS (dimName i) f.body (generateIr_dead i ofRat cap a formats g k f hfree hnames h)

/-- **C16 for every kernel.** Under `dimFree`, two runs of the optimised kernel from states that
agree on everything except the value held by `<i>_dim` either both fail with the same error, or both
succeed with the same return value, the same number of loop iterations and of steps, and final
states that again agree except on `<i>_dim`. -/
theorem generateIr_dim_frame [FloatOps F] (i : String) (ofRat : Rat → F) (cap : Option Int) (a : Alg.DAssign)
    (formats : Formats) (g : IGraph) (k : Kind) (f : Func F)
    (hfree : dimFree i (outTensor a formats) g = true) (hnames : namesClear i a formats = true)
    (h : generateIr ofRat cap a formats g k = .ok f)
    (fuel : Nat) (σ₁ σ₂ : State F) (hσ : EqExcept (dimName i) σ₁ σ₂) :
    match exec fuel (peepF f).body σ₁, exec fuel (peepF f).body σ₂ with
    | .ok o₁, .ok o₂ =>
      EqExcept (dimName i) o₁.st o₂.st ∧ o₁.ret = o₂.ret ∧ o₁.iters = o₂.iters ∧ o₁.steps = o₂.steps
    | .error e₁, .error e₂ => e₁ = e₂
    | _, _ => False :=
  deadVar_frame (dimName i) fuel (peepF f).body σ₁ σ₂
    (peepF_deadDim i ofRat cap a formats g k f hfree hnames h) hσ

/-- the loop nest alone (the part of the kernel after the `<i>_dim` declarations): the lowered graph,
run with two different sizes in `<i>_dim`, performs the same number of iterations -/
theorem lower_dim_frame [FloatOps F] (i : String) (ofRat : Rat → F) (k : Kind) (n : Nat) (g : IGraph)
    (out : Output) (b : SB F) (hout : out.dimOK i) (hg : g.dimFreeG i = true)
    (h : lower ofRat n g out k = .ok b)
    (fuel : Nat) (σ₁ σ₂ : State F) (hσ : EqExcept (dimName i) σ₁ σ₂) :
    match exec fuel b.finalize σ₁, exec fuel b.finalize σ₂ with
    | .ok o₁, .ok o₂ =>
      EqExcept (dimName i) o₁.st o₂.st ∧ o₁.ret = o₂.ret ∧ o₁.iters = o₂.iters ∧ o₁.steps = o₂.steps
    | .error e₁, .error e₂ => e₁ = e₂
    | _, _ => False :=
  deadVar_frame (dimName i) fuel b.finalize σ₁ σ₂
    (by rw [SB.dead_finalize]; exact lower_dead i ofRat k n g out b hout hg h) hσ

/-! ### D5 -/

/-- **D5.** Part (b) of `dimFree` from the syntactic condition of the property: if the static part
`dimFreeS i` holds (part (a), the name check, and "the output leaf of an iteration over `i` is
compressed") and every additive term of every terminal expression of the graph mentions `i`
(`everyTermHas i`, `Props/C16Graph.lean`), then `g.dimFreeG i`. The other half of the syntactic
condition, `storesCompressed i`, is implied by part (a) (`storesCompressed_of_allT`). -/
theorem dimFreeG_of_syntactic_condition (i : String) (g : IGraph) (hs : g.dimFreeS i = true)
    (h1 : g.termsAll (everyTermHas i) = true) : g.dimFreeG i = true :=
  dimFreeG_of_condition i g hs h1

/-- D3 with the syntactic condition in place of part (b) -/
theorem generateIr_deadDim_of_condition (i : String) (ofRat : Rat → F) (cap : Option Int) (a : Alg.DAssign)
    (formats : Formats) (g : IGraph) (k : Kind) (f : Func F)
    (hT : tensorFree i (outTensor a formats) = true) (hs : g.dimFreeS i = true)
    (h1 : g.termsAll (everyTermHas i) = true) (hnames : namesClear i a formats = true)
    (h : generateIr ofRat cap a formats g k = .ok f) : f.body.deadVar (dimName i) = true :=
  generateIr_dead i ofRat cap a formats g k f
    (by simp [dimFree, hT, dimFreeG_of_condition i g hs h1]) hnames h

/-! ### non-vacuity (over the exact carrier `F := Int`) -/

open DimDeadEx in
/-- sparse vector addition `a(i) = b(i) + c(i)`, all compressed: `addGraph` is the graph the compiler
picks, `dimFree "i"` and `namesClear "i"` hold, every kernel kind is generated — and by D3/D4
`i_dim` is dead in it, raw and optimised. -/
example (k : Kind) :
    (match bestAlgorithm asgAdd fmS with | .graph g => some g | _ => none) = some addGraph ∧
    dimFree "i" (outTensor asgAdd fmS) addGraph = true ∧ namesClear "i" asgAdd fmS = true ∧
    ∃ f, generateIr (F := Int) ofR none asgAdd fmS addGraph k = .ok f ∧
      f.body.deadVar "i_dim" = true ∧ (peepF f).body.deadVar "i_dim" = true := by
  obtain ⟨f, hf⟩ := addGraph_ok k
  exact ⟨bestAlgorithm_add, addGraph_dimFree, addGraph_names, f, hf,
    generateIr_deadDim "i" ofR none asgAdd fmS addGraph k f addGraph_dimFree addGraph_names hf,
    peepF_deadDim "i" ofR none asgAdd fmS addGraph k f addGraph_dimFree addGraph_names hf⟩

open DimDeadEx in
/-- the hypotheses of `generateIr_deadDim_alnum` and of D5 on the same problem -/
example :
    '_' ∉ "i".toList ∧ (∀ e ∈ indexDimensions asgAdd, '_' ∉ e.2.1.toList) ∧
    (∀ e ∈ fmS, '_' ∉ e.1.toList) ∧ '_' ∉ asgAdd.tname.toList ∧
    addGraph.dimFreeS "i" = true ∧ addGraph.termsAll (everyTermHas "i") = true ∧
    tensorFree "i" (outTensor asgAdd fmS) = true := by decide

open DimDeadEx in
/-- the hypotheses of D2 on the same graph: the lowering succeeds against the output object
`generateIr` starts with, which is `dimOK "i"` -/
example (k : Kind) :
    (Output.append aT 0).dimOK "i" ∧ addGraph.dimFreeG "i" = true ∧
    ∃ b, lower (F := Int) ofR 12 addGraph (.append aT 0) k = .ok b ∧ deadVarL "i_dim" b.lines = true := by
  have hok : (Output.append aT 0).dimOK "i" := ⟨by decide, by decide, by decide⟩
  have hg : addGraph.dimFreeG "i" = true := by decide
  obtain ⟨b, hb⟩ := lower_ok_of_lowerableX (F := Int) ofR k 12 addGraph (.append aT 0) (by decide) (by decide)
    (by decide)
  exact ⟨hok, hg, b, hb, lower_deadDim "i" ofR k 12 addGraph _ b hok hg hb⟩

open DimDeadEx in
/-- a dense operand: `a(i) = b(i)` with `b` dense (the graph the compiler picks). `dimFree "i"` is
false — although the names are clear and the output stores `i` compressed — and the `compute` kernel
is generated and does read `i_dim` (its loop condition is `i < i_dim`): the graph condition cannot
be dropped. -/
theorem dimFree_needed :
    (match bestAlgorithm DimDeadEx.asgCopy DimDeadEx.fmD with | .graph g => some g | _ => none) =
      some DimDeadEx.denseGraph ∧
    dimFree "i" (outTensor DimDeadEx.asgCopy DimDeadEx.fmD) DimDeadEx.denseGraph = false ∧
    tensorFree "i" (outTensor DimDeadEx.asgCopy DimDeadEx.fmD) = true ∧
    namesClear "i" DimDeadEx.asgCopy DimDeadEx.fmD = true ∧
    ∃ f, generateIr (F := Int) DimDeadEx.ofR none DimDeadEx.asgCopy DimDeadEx.fmD DimDeadEx.denseGraph .compute
        = .ok f ∧ f.body.deadVar "i_dim" = false :=
  ⟨bestAlgorithm_copy, denseGraph_not_dimFree, by decide, denseGraph_names, generateIr_dense⟩

/-- name hygiene cannot be dropped either: for an index named `j_dim` the loop variable of an
iteration over it is the dimension variable of `j` — `dimFreeG "j"` rejects the graph. -/
example : (IGraph.iter "j_dim" none (.terminal (.int 0))).dimFreeG "j" = false := by decide

end TV.Gen
