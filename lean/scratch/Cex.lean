import TensoraVerif.Props.C07
/-!
Regression file (NOT part of the library build): the three states that were counterexamples to
`peephole_stmt_sound` / `peephole_expr_sound` under the first version of `Model/Machine.lean`
(setVar updating all records with a name; sparse sorted `cells`; unchecked reads of tensor
`vals`/slots). With the current model original and optimised program agree on all of them.
Run: `lake env lean scratch/Cex.lean`.
-/
namespace TV.IR
open FloatOps

-- (1) duplicate variable names, `a = a`
def σ1 : State Int := ⟨[⟨"a", .int, some (.int 1)⟩, ⟨"a", .int, some (.int 2)⟩], [], []⟩
def s1 : Stmt Int := .assign (.var "a") (.var "a")
#eval (exec 1 s1 σ1).toOption.map (fun o => repr o.st)
#eval (exec 1 (peepS s1) σ1).toOption.map (fun o => repr o.st)
example : ∃ o, exec 1 s1 σ1 = .ok o ∧ o.st = σ1 := by
  simp [s1, σ1, exec, evalRhs, evalE, evalLoc, store, lookupVar, convTo, setVar, setVarOpt, chkVal,
    chkInt, inI32, hasTy, bind, Except.bind]

-- (2) `p[1] = p[1]` on a block (cells are now a dense list: no sortedness invariant)
def σ3 : State Int := ⟨[⟨"p", .ptr .int, some (.ptr 0 0)⟩],
  [⟨.int, [some (.int 1), some (.int 2), none], .output, true⟩], []⟩
def s3 : Stmt Int := .assign (.idx (.var "p") (.intLit 1)) (.idx (.var "p") (.intLit 1))
#eval (exec 1 s3 σ3).toOption.map (fun o => repr o.st)
#eval (exec 1 (peepS s3) σ3).toOption.map (fun o => repr o.st)

-- (3) exotic lawful carrier with a non-finite element stored in tensor `vals`
instance exF : FloatOps (Option Int) where
  zero := some 0
  one := some 1
  add a b := match a, b with | some x, some y => some (x + y) | _, _ => none
  sub a b := match a, b with | some x, some y => some (x - y) | _, _ => none
  mul a b := match a, b with | some x, some y => some (x * y) | _, _ => some 1
  ofInt i := some i
  lt a b := match a, b with | some x, some y => decide (x < y) | _, _ => false
  eq a b := match a, b with | some x, some y => decide (x = y) | _, _ => false
  finite a := a.isSome

instance : @FloatLaws (Option Int) exF where
  eq_true a b h := by cases a <;> cases b <;> simp_all [FloatOps.eq]
  eq_refl a h := by cases a <;> simp_all [FloatOps.eq, FloatOps.finite]
  lt_irrefl a := by cases a <;> simp [FloatOps.lt]
  finite_zero := rfl
  finite_one := rfl
  zero_add a h := by cases a <;> simp_all [FloatOps.add, FloatOps.zero, FloatOps.finite]
  add_zero a h := by cases a <;> simp_all [FloatOps.add, FloatOps.zero, FloatOps.finite]
  sub_zero a h := by cases a <;> simp_all [FloatOps.sub, FloatOps.zero, FloatOps.finite]
  zero_mul a h := by cases a <;> simp_all [FloatOps.mul, FloatOps.zero, FloatOps.finite]
  mul_zero a h := by cases a <;> simp_all [FloatOps.mul, FloatOps.zero, FloatOps.finite]
  one_mul a h := by cases a <;> simp_all [FloatOps.mul, FloatOps.one, FloatOps.finite]
  mul_one a h := by cases a <;> simp_all [FloatOps.mul, FloatOps.one, FloatOps.finite]
  ofInt_zero := rfl
  ofInt_one := rfl
  finite_ofInt _ _ := rfl
  add_ofInt _ _ _ _ _ := rfl
  sub_ofInt _ _ _ _ _ := rfl
  mul_ofInt _ _ _ _ _ := rfl
  lt_ofInt _ _ _ _ := rfl
  eq_ofInt _ _ _ _ := rfl

def σ2 : State (Option Int) := ⟨[⟨"t", .ptr .tensor, some (.tensor 0)⟩], [], [⟨1, 0, [], .flt none, .output⟩]⟩
def e2 : Expr (Option Int) := .bin .mul (.floatLit (some 0)) (.attr (.var "t") "vals")
-- the original now fails with a type error (a non-pointer `vals` is unreadable), so no obligation
example : evalE σ2 e2 = .error .typeError := by rfl
example : evalE σ2 (peepE e2) = .ok (.flt (some 0)) := by rfl
end TV.IR
