/* LD_PRELOAD interposer for C13: tracks the life of registered heap addresses.
 *
 * verif_watch(p)      start tracking p (state LIVE, counters reset)
 * verif_state(p)      0 = not watched, 1 = live, 2 = freed once, 3 = freed again while still
 *                     unrecycled (double free), 4 = recycled by the allocator after a single free
 * verif_frees(p)      number of free()/moving realloc() calls seen on p while it was LIVE or FREED
 * verif_events(buf,n) copy the event log ("F<idx>" per free of a watched address, in order)
 *
 * malloc/calloc/realloc/free are forwarded to glibc's __libc_* entry points. */
#define _GNU_SOURCE
#include <stddef.h>
#include <stdint.h>
#include <string.h>

extern void *__libc_malloc(size_t);
extern void *__libc_calloc(size_t, size_t);
extern void *__libc_realloc(void *, size_t);
extern void __libc_free(void *);
extern void *__libc_memalign(size_t, size_t);

#define MAXW 4096
static void *watched[MAXW];
static int state[MAXW];
static int frees[MAXW];
static int nw = 0;
static int evlog[1 << 16];
static int nev = 0;
static volatile int lock = 0;

static void lk(void) { while (__sync_lock_test_and_set(&lock, 1)) {} }
static void ul(void) { __sync_lock_release(&lock); }

static int find(void *p) {
  for (int i = nw - 1; i >= 0; i--) if (watched[i] == p) return i;
  return -1;
}

static void on_alloc(void *p) {
  if (!p || nw == 0) return;
  lk();
  int i = find(p);
  if (i >= 0 && state[i] == 2) state[i] = 4;
  ul();
}

static void on_free(void *p) {
  if (!p || nw == 0) return;
  lk();
  int i = find(p);
  if (i >= 0) {
    if (state[i] == 1) { state[i] = 2; frees[i]++; if (nev < (1 << 16)) evlog[nev++] = i; }
    else if (state[i] == 2) { state[i] = 3; frees[i]++; if (nev < (1 << 16)) evlog[nev++] = i; }
  }
  ul();
}

void *malloc(size_t n) { void *p = __libc_malloc(n); on_alloc(p); return p; }
void *calloc(size_t a, size_t b) { void *p = __libc_calloc(a, b); on_alloc(p); return p; }
void free(void *p) { on_free(p); __libc_free(p); }
void *realloc(void *p, size_t n) {
  void *q = __libc_realloc(p, n);
  if (q != p) { on_free(p); on_alloc(q); }
  return q;
}

/* every other allocation entry point of glibc: an address handed out again after a free must be seen,
 * otherwise its next (legitimate) free would look like a double free */
int posix_memalign(void **out, size_t align, size_t n) {
  void *q = __libc_memalign(align, n);
  if (!q) return 12; /* ENOMEM */
  *out = q; on_alloc(q); return 0;
}
void *aligned_alloc(size_t align, size_t n) { void *q = __libc_memalign(align, n); on_alloc(q); return q; }
void *memalign(size_t align, size_t n) { void *q = __libc_memalign(align, n); on_alloc(q); return q; }
void *valloc(size_t n) { void *q = __libc_memalign(4096, n); on_alloc(q); return q; }
void *pvalloc(size_t n) { void *q = __libc_memalign(4096, (n + 4095) & ~(size_t)4095); on_alloc(q); return q; }
void *reallocarray(void *p, size_t a, size_t b) {
  if (b && a > (size_t)-1 / b) return 0;
  return realloc(p, a * b);
}

int verif_watch(void *p) {
  lk();
  int i = nw < MAXW ? nw++ : -1;
  if (i >= 0) { watched[i] = p; state[i] = 1; frees[i] = 0; }
  ul();
  return i;
}
void verif_reset(void) { lk(); nw = 0; nev = 0; ul(); }
int verif_state_idx(int i) { return (i >= 0 && i < nw) ? state[i] : 0; }
int verif_frees_idx(int i) { return (i >= 0 && i < nw) ? frees[i] : 0; }
int verif_nevents(void) { return nev; }
int verif_event(int k) { return (k >= 0 && k < nev) ? evlog[k] : -1; }
