#!/venv/bin/python
"""Automatic mutation sweep: breadth test of the checks' detection power (an experiment, not a check).

For a seeded random sample of small syntactic mutants of /repo/src/tensora (comparison / boolean /
arithmetic operator swaps, off-by-one constants, negated conditions, dropped statements):

  1. copy the source tree to a scratch directory and apply the mutant there (never in /repo);
  2. run the quick checks of the properties anchored in the mutated file (properties.jsonl `anchors.files`)
     against the scratch copy (TENSORA_REPO, VERIF_OUT, VERIF_SWEEP=1: no Lean rebuild, stop at the first
     violation), cheapest check first, until one reports a VIOLATION;
  3. a mutant no check detects is run through the project's own test suite: killed there -> not a
     "realistic change that passes the existing tests"; survives -> written to the report as UNDETECTED
     (either an equivalent / property-irrelevant mutant or a gap in the checks: triaged by hand, see
     DESIGN.md section 10).

usage: mutsweep.py --out DIR [--per-file N] [--jobs J] [--seed S] [--files glob ...] [--no-tests]
"""
from __future__ import annotations

import argparse
import ast
import concurrent.futures as cf
import json
import os
import random
import shutil
import subprocess
import sys
import time
from pathlib import Path

VERIF = Path(__file__).resolve().parent.parent
REPO = Path(os.environ.get("TENSORA_REPO", "/repo"))

# measured wall time of the quick checks (s), used to order them
COST = {"C12": 11, "C09": 15, "C06": 21, "C15": 23, "C13": 32, "C14": 34, "C04": 40, "C02": 47, "C05": 49,
        "C08": 52, "C10": 54, "C01": 77, "C11": 92, "C07": 222, "C16": 233, "C03": 334}

CMP = {ast.Lt: "<=", ast.LtE: "<", ast.Gt: ">=", ast.GtE: ">", ast.Eq: "!=", ast.NotEq: "=="}
CMP_TXT = {ast.Lt: "<", ast.LtE: "<=", ast.Gt: ">", ast.GtE: ">=", ast.Eq: "==", ast.NotEq: "!="}


def anchors() -> dict[str, list[str]]:
    m: dict[str, list[str]] = {}
    for line in (VERIF / "properties.jsonl").read_text().splitlines():
        d = json.loads(line)
        for f in d["anchors"]["files"]:
            m.setdefault(f, []).append(d["id"])
    return m


def seg(src_lines, node):
    """(start offset, end offset) of a node in the flat source"""
    return node.lineno, node.col_offset, node.end_lineno, node.end_col_offset


class Collector(ast.NodeVisitor):
    """collect (kind, start, end, replacement text) edits; offsets are (line, col) pairs"""

    def __init__(self, src: str):
        self.src = src
        self.lines = src.splitlines(keepends=True)
        self.edits: list[tuple] = []
        self.func = ""

    def text(self, node):
        return ast.get_source_segment(self.src, node)

    def add(self, kind, node, repl):
        self.edits.append((kind, self.func, node.lineno, node.col_offset, node.end_lineno, node.end_col_offset, repl))

    def visit_FunctionDef(self, node):
        old, self.func = self.func, node.name
        # skip docstring
        self.generic_visit(node)
        self.func = old

    def visit_Compare(self, node):
        if len(node.ops) == 1 and type(node.ops[0]) in CMP:
            l, r = self.text(node.left), self.text(node.comparators[0])
            if l and r:
                self.add("cmp", node, f"{l} {CMP[type(node.ops[0])]} {r}")
        self.generic_visit(node)

    def visit_BoolOp(self, node):
        parts = [self.text(v) for v in node.values]
        if all(parts):
            op = " or " if isinstance(node.op, ast.And) else " and "
            self.add("boolop", node, "(" + op.join(f"({p})" for p in parts) + ")")
            # drop one operand
            for k in range(len(parts)):
                rest = parts[:k] + parts[k + 1:]
                op0 = " and " if isinstance(node.op, ast.And) else " or "
                self.add("dropoperand", node, "(" + op0.join(f"({p})" for p in rest) + ")")
        self.generic_visit(node)

    def visit_UnaryOp(self, node):
        if isinstance(node.op, ast.Not):
            t = self.text(node.operand)
            if t:
                self.add("not", node, f"({t})")
        self.generic_visit(node)

    def visit_BinOp(self, node):
        l, r = self.text(node.left), self.text(node.right)
        if l and r:
            if isinstance(node.op, ast.Add):
                self.add("arith", node, f"({l}) - ({r})")
            elif isinstance(node.op, ast.Sub):
                self.add("arith", node, f"({l}) + ({r})")
            elif isinstance(node.op, ast.Mult):
                self.add("arith", node, f"({l}) + ({r})")
        self.generic_visit(node)

    def visit_Constant(self, node):
        v = node.value
        if isinstance(v, bool):
            self.add("const", node, "False" if v else "True")
        elif isinstance(v, int) and abs(v) <= 4:
            self.add("const", node, str(v + 1))
            if v != 0:
                self.add("const", node, str(v - 1))
        self.generic_visit(node)

    def visit_If(self, node):
        t = self.text(node.test)
        if t:
            self.add("negif", node.test, f"not ({t})")
        self.generic_visit(node)

    def visit_IfExp(self, node):
        t = self.text(node.test)
        if t:
            self.add("negif", node.test, f"not ({t})")
        self.generic_visit(node)

    def visit_Expr(self, node):
        # drop a call statement such as `source.append(...)`
        if isinstance(node.value, ast.Call) and node.col_offset > 0:
            self.add("dropstmt", node, "pass")
        self.generic_visit(node)

    def visit_Call(self, node):
        # swap the first two positional arguments
        if len(node.args) >= 2 and not any(isinstance(a, ast.Starred) for a in node.args[:2]):
            a, b = self.text(node.args[0]), self.text(node.args[1])
            if a and b and a != b:
                f = self.text(node.func)
                rest = [self.text(x) for x in node.args[2:]] + [self.text(k) for k in node.keywords]
                if f and all(rest):
                    self.add("swapargs", node, f"{f}({', '.join([b, a] + rest)})")
        self.generic_visit(node)


def apply_edit(src: str, e) -> str:
    _, _, l0, c0, l1, c1, repl = e
    lines = src.splitlines(keepends=True)
    # col offsets are in utf8 bytes; source is ascii in this project
    start = sum(len(x) for x in lines[: l0 - 1]) + c0
    end = sum(len(x) for x in lines[: l1 - 1]) + c1
    return src[:start] + repl + src[end:]


def mutants_of(path: Path) -> list[tuple]:
    src = path.read_text()
    try:
        tree = ast.parse(src)
    except SyntaxError:
        return []
    c = Collector(src)
    c.visit(tree)
    out = []
    for e in c.edits:
        new = apply_edit(src, e)
        if new == src:
            continue
        try:
            ast.parse(new)
        except SyntaxError:
            continue
        out.append((e, new))
    return out


def run_one(job):
    idx, rel, e, new_src, props, outdir, no_tests = job
    kind, func, l0, c0, l1, c1, repl = e
    work = Path(outdir) / f"w{idx:04d}"
    if work.exists():
        shutil.rmtree(work)
    (work / "src").parent.mkdir(parents=True, exist_ok=True)
    shutil.copytree(REPO / "src", work / "src", ignore=shutil.ignore_patterns("__pycache__"))
    target = work / "src" / "tensora" / rel
    orig_line = (REPO / "src" / "tensora" / rel).read_text().splitlines()[l0 - 1].strip()
    target.write_text(new_src)
    rec = {"idx": idx, "file": rel, "func": func, "kind": kind, "line": l0, "orig": orig_line[:160], "repl": repl[:160],
           "props": props, "detected_by": None, "checks_run": [], "tests": None}
    env = dict(os.environ, TENSORA_REPO=str(work), VERIF_OUT=str(work / "out"), VERIF_SWEEP="1", VERIF_TIER="quick")
    t0 = time.time()
    for p in sorted(props, key=lambda x: COST.get(x, 100)):
        try:
            r = subprocess.run([str(VERIF / "check"), p, "--tier", "quick"], cwd=VERIF, env=env, capture_output=True,
                               text=True, timeout=1500)
            out = r.stdout + r.stderr
            rc = r.returncode
        except subprocess.TimeoutExpired:
            out, rc = "TIMEOUT", 3
        viol = [ln for ln in out.splitlines() if ln.startswith("VIOLATION")]
        rec["checks_run"].append({"check": p, "rc": rc, "violation": bool(viol),
                                  "no_input": any("no-failing-input-found" in v for v in viol)})
        if viol or rc == 3:
            rec["detected_by"] = p + (" (hang)" if rc == 3 else "")
            # keep what was reported
            for v in viol[:1]:
                parts = v.split("replay=")
                if len(parts) > 1:
                    rp = Path(parts[1].split()[0])
                    if rp.exists():
                        try:
                            rec["what"] = json.loads(rp.read_text()).get("what", "")[:300]
                        except Exception:  # noqa: BLE001
                            pass
            break
        if rc not in (0, 1):
            rec.setdefault("machinery", []).append({"check": p, "tail": out[-600:]})
    rec["check_wall_s"] = round(time.time() - t0, 1)
    if rec["detected_by"] is None and not no_tests:
        t1 = time.time()
        tenv = dict(os.environ, PYTHONPATH=str(work / "src"), PYTHONDONTWRITEBYTECODE="1")
        try:
            r = subprocess.run(["/venv/bin/python", "-m", "pytest", "-q", "-x", "-p", "no:cacheprovider", "-n", "4",
                                "tests", "tests_cffi", "fuzz_tests/test_parsing.py"], cwd=REPO, env=tenv,
                               capture_output=True, text=True, timeout=3000)
            tail = (r.stdout.strip().splitlines() or ["?"])[-1]
            rec["tests"] = "pass" if r.returncode == 0 else "fail"
            rec["tests_tail"] = tail[:200]
        except subprocess.TimeoutExpired:
            rec["tests"] = "timeout"
        rec["tests_wall_s"] = round(time.time() - t1, 1)
    shutil.rmtree(work, ignore_errors=True)
    return rec


def main():
    ap = argparse.ArgumentParser()
    ap.add_argument("--out", required=True)
    ap.add_argument("--per-file", type=int, default=6)
    ap.add_argument("--jobs", type=int, default=6)
    ap.add_argument("--seed", type=int, default=0)
    ap.add_argument("--files", nargs="*", default=None)
    ap.add_argument("--no-tests", action="store_true")
    ap.add_argument("--list", action="store_true")
    a = ap.parse_args()
    rng = random.Random(a.seed)
    anc = anchors()
    jobs = []
    idx = 0
    for f, props in sorted(anc.items()):
        rel = f.removeprefix("src/tensora/")
        if a.files and not any(x in rel for x in a.files):
            continue
        p = REPO / f
        if not p.exists():
            continue
        ms = mutants_of(p)
        rng.shuffle(ms)
        for e, new in ms[: a.per_file]:
            jobs.append((idx, rel, e, new, props, a.out, a.no_tests))
            idx += 1
    print(f"{len(jobs)} mutants", flush=True)
    if a.list:
        for j in jobs:
            print(j[1], j[2][:3], j[2][-1][:80])
        return
    out = Path(a.out)
    out.mkdir(parents=True, exist_ok=True)
    recs = []
    with cf.ThreadPoolExecutor(max_workers=a.jobs) as ex:
        for rec in ex.map(run_one, jobs):
            recs.append(rec)
            tag = rec["detected_by"] or ("UNDETECTED tests=" + str(rec["tests"]))
            print(f"#{rec['idx']} {rec['file']}:{rec['line']} {rec['kind']} [{rec['orig'][:60]}] -> [{rec['repl'][:40]}] : {tag}",
                  flush=True)
            (out / "results.json").write_text(json.dumps(recs, indent=1))
    det = sum(1 for r in recs if r["detected_by"])
    und = [r for r in recs if not r["detected_by"]]
    surv = [r for r in und if r["tests"] == "pass"]
    print(f"SUMMARY mutants={len(recs)} detected={det} undetected={len(und)} of which pass the test suite={len(surv)}")
    for r in surv:
        print("SURVIVOR", r["file"], r["line"], r["kind"], "|", r["orig"], "->", r["repl"])


if __name__ == "__main__":
    sys.exit(main())
